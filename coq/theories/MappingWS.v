(* C03: the mapping (curves, NLQ) the writer emits is read back as exactly what was in memory. *)
From Coq Require Import List NArith ZArith Lia Bool String.
From DV Require Import Outcome Bits BitIO Fields Blocks Rpu Tables FieldsProofs C03Proofs HeaderRT MappingRT RpuRT DmWS HeaderWS.
Import ListNotations.
Open Scope N_scope.
Local Open Scope out_scope.
Require Import ZifyBool ZifyN.
Ltac Zify.zify_post_hook ::= Z.div_mod_to_equations.

(* signed exp-Golomb written then read (|v| < 2^52) *)
Lemma write_se_reads p v w w' : write_se p v w = Ok w' -> se_small v ->
  exists bs, w' = wput w bs /\ forall p', reads (get_se p') bs v.
Proof.
  unfold write_se, se_small. intros H Hs. unfold two52 in Hs.
  destruct (0 <? v)%Z eqn:Epos.
  - apply Z.ltb_lt in Epos.
    replace (Z.of_N two63 <=? 2 * v)%Z with false in H by (symmetry; apply Z.leb_gt; unfold two63; lia).
    assert (Hc : Z.to_N (2 * v - 1) + 1 < two64) by (unfold two64; lia).
    destruct (write_ue_reads _ _ _ _ H Hc) as (bs & -> & Hr). exists bs. split; [reflexivity|].
    intros p' rest pos. unfold get_se. rewrite (Hr p'). cbn [bind].
    set (code := Z.to_N (2 * v - 1)).
    assert (Hcode : code = 2 * Z.to_N v - 1) by (unfold code; lia).
    rewrite (N.mod_small (code + 1) two64) by exact Hc.
    rewrite round_f64_small by (unfold two53; lia).
    replace (N.even code) with false by (symmetry; rewrite <- N.negb_odd; apply Bool.negb_false_iff; apply N.odd_spec; exists (Z.to_N v - 1); lia).
    replace ((code + 1) / 2 =? two63) with false by (symmetry; apply N.eqb_neq; unfold two63; lia).
    f_equal. f_equal. lia.
  - apply Z.ltb_ge in Epos.
    replace (Z.of_N two63 <? -2 * v)%Z with false in H by (symmetry; apply Z.ltb_ge; unfold two63; lia).
    replace (Z.of_N two63 =? -2 * v)%Z with false in H by (symmetry; apply Z.eqb_neq; unfold two63; lia).
    assert (Hc : Z.to_N (-2 * v) + 1 < two64) by (unfold two64; lia).
    destruct (write_ue_reads _ _ _ _ H Hc) as (bs & -> & Hr). exists bs. split; [reflexivity|].
    intros p' rest pos. unfold get_se. rewrite (Hr p'). cbn [bind].
    set (code := Z.to_N (-2 * v)).
    assert (Hcode : code = 2 * Z.to_N (- v)) by (unfold code; lia).
    rewrite (N.mod_small (code + 1) two64) by exact Hc.
    rewrite round_f64_small by (unfold two53; lia).
    replace (N.even code) with true by (symmetry; apply N.even_spec; exists (Z.to_N (- v)); exact Hcode).
    replace ((code + 1) / 2 =? two63) with false by (symmetry; apply N.eqb_neq; unfold two63; lia).
    f_equal. f_equal. lia.
Qed.

Lemma write_n_reads_lt tb n v w w' : write_n tb n v w = Ok w' -> n < tb ->
  exists bs, w' = wput w bs /\ reads (get_n tb n) bs v.
Proof.
  intros H Hn. assert (Hv : v < 2 ^ tb).
  { unfold write_n in H. destruct (tb <? n); [discriminate|].
    replace (n <? tb) with true in H by (symmetry; apply N.ltb_lt; exact Hn). cbn [andb] in H.
    destruct (2 ^ n <=? v) eqn:E; [discriminate|]. apply N.leb_gt in E.
    eapply N.lt_trans; [exact E|]. apply N.pow_lt_mono_r; lia. }
  apply (write_n_reads _ _ _ _ _ H Hv).
Qed.

Section CoefsWS.
  Context (h : header).
  Let t0 := coefficient_data_type h =? 0.
  Let len := coefficient_log2_denom_length h.
  Context (Hlen : len < 64).

  (* the k coefficients the writer takes from position j of the two arrays *)
  Fixpoint coefs_at (ints : list Z) (fracs : list N) (j k : nat) : list (option Z * N) :=
    match k with
    | O => []
    | S k' => ((if t0 then nth_error ints j else None), nth j fracs 0) :: coefs_at ints fracs (S j) k'
    end.

  Definition ints_small (ints : list Z) : Prop := t0 = true -> Forall se_small ints.

  Lemma write_coefs_reads p : forall k ints fracs j w w',
    write_coefs p h ints fracs j k w = Ok w' -> ints_small ints ->
    exists bs, w' = wput w bs /\ reads (get_coefs Debug h k) bs (coefs_at ints fracs j k).
  Proof.
    induction k as [|k IH]; intros ints fracs j w w' H Hs; cbn [write_coefs] in H.
    - inversion H; subst. exists []. split; [symmetry; apply wput_nil|]. intros rest pos. cbn. f_equal. f_equal. f_equal. lia.
    - fold t0 in H. fold len in H. unfold nth_or_panic in H.
      assert (Hse : exists b1 w1,
                (if t0 then bind (match nth_error ints j with Some x => Ok x | None => Panic site_write_index end) (fun v => write_se p v w) else Ok w) = Ok w1 /\
                w1 = wput w b1 /\
                forall rest pos, (if t0 then (let* '(v, r) := get_se Debug (mkR (b1 ++ rest) pos) in Ok (Some v, r)) else Ok (None, mkR (b1 ++ rest) pos))
                                 = Ok ((if t0 then nth_error ints j else None), mkR rest (pos + N.of_nat (List.length b1)))).
      { destruct t0 eqn:Et.
        - destruct (nth_error ints j) as [v|] eqn:Ev; cbn [bind] in H |- *; [|discriminate].
          destruct (write_se p v w) as [w1| |s] eqn:Es; cbn [bind] in H; try discriminate.
          assert (Hsm : se_small v).
          { pose proof (Hs Et) as Hs'. rewrite Forall_forall in Hs'. apply Hs'. eapply nth_error_In. exact Ev. }
          destruct (write_se_reads _ _ _ _ Es Hsm) as (b1 & -> & Hr1).
          exists b1, (wput w b1). split; [reflexivity|]. split; [reflexivity|]. intros rest pos. rewrite (Hr1 Debug). reflexivity.
        - exists [], w. split; [reflexivity|]. split; [symmetry; apply wput_nil|]. intros rest pos. cbn [app List.length].
          f_equal. f_equal. f_equal. lia. }
      destruct Hse as (b1 & w1 & E1 & -> & Hr1).
      unfold bind at 1 in H.
      assert (H' : (let* w0 := Ok (wput w b1) in
                    let* f := match nth_error fracs j with Some x => Ok x | None => Panic site_write_index end in
                    let* w2 := write_n 64 len f w0 in write_coefs p h ints fracs (S j) k w2) = Ok w').
      { rewrite <- E1. revert H. destruct t0; [|intros H; exact H].
        destruct (nth_error ints j) as [v|]; cbn [bind]; [|discriminate]. intros H; exact H. }
      clear H. cbn [bind] in H'.
      destruct (nth_error fracs j) as [f|] eqn:Ef; cbn [bind] in H'; [|discriminate].
      destruct (write_n 64 len f (wput w b1)) as [w2| |s] eqn:E2; cbn [bind] in H'; try discriminate.
      destruct (write_n_reads_lt _ _ _ _ _ E2 Hlen) as (b2 & -> & Hr2).
      destruct (IH _ _ _ _ _ H' Hs) as (b3 & -> & Hr3).
      exists (b1 ++ b2 ++ b3). split; [rewrite !wput_app; reflexivity|].
      intros rest pos. cbn [get_coefs coefs_at]. unfold get_coef. fold t0. fold len.
      rewrite <- !app_assoc. rewrite Hr1. cbn [bind]. rewrite Hr2. cbn [bind]. rewrite Hr3. cbn [bind].
      assert (Hnth : nth j fracs 0 = f) by (apply nth_error_nth; exact Ef). rewrite Hnth.
      f_equal. f_equal. f_equal. rewrite !app_length. lia.
  Qed.
End CoefsWS.

Lemma ints_of_coefs_at_t0 h ints fracs : (coefficient_data_type h =? 0) = true ->
  forall k j, (j + k = List.length ints)%nat -> ints_of (coefs_at h ints fracs j k) = skipn j ints.
Proof.
  intros Et. induction k as [|k IH]; intros j Hl; cbn [coefs_at].
  - rewrite skipn_all2 by lia. reflexivity.
  - rewrite ints_of_cons. cbn [fst]. rewrite Et.
    destruct (nth_error ints j) as [v|] eqn:Ev; [|apply nth_error_None in Ev; lia].
    rewrite IH by lia. cbn [app].
    clear -Ev. revert j Ev. induction ints as [|x t IH]; intros [|j] Ev; cbn in *; try discriminate.
    + inversion Ev. reflexivity.
    + apply IH. exact Ev.
Qed.

Lemma ints_of_coefs_at_nt0 h ints fracs : (coefficient_data_type h =? 0) = false ->
  forall k j, ints_of (coefs_at h ints fracs j k) = [].
Proof.
  intros Et. induction k as [|k IH]; intros j; cbn [coefs_at]; [reflexivity|].
  rewrite ints_of_cons. cbn [fst]. rewrite Et. cbn [app]. apply IH.
Qed.

Lemma fracs_of_coefs_at h ints fracs : forall k j, (j + k = List.length fracs)%nat ->
  fracs_of (coefs_at h ints fracs j k) = skipn j fracs.
Proof.
  induction k as [|k IH]; intros j Hl; cbn [coefs_at].
  - rewrite skipn_all2 by lia. reflexivity.
  - unfold fracs_of in *. cbn [map snd]. rewrite IH by lia.
    clear IH. revert j Hl. induction fracs as [|x t IHf]; intros [|j] Hl; cbn in *; try lia; [reflexivity|].
    apply IHf. lia.
Qed.

Section PiecesWS.
  Context (h : header) (ib : bool).
  Let t0 := coefficient_data_type h =? 0.
  Let len := coefficient_log2_denom_length h.
  Context (Hlen : len < 64).

  (* entry i of a polynomial curve as held in memory *)
  Definition poly_entry_ok (pc : poly_curve) (i : nat) (order : N) (ints : list Z) (fracs : list N) : Prop :=
    nth_error (poly_order_minus1 pc) i = Some order /\ order <= 1 /\
    nth_error (linear_interp_flag pc) i = Some false /\
    nth_error (poly_coef_int pc) i = Some ints /\ nth_error (poly_coef pc) i = Some fracs /\
    List.length fracs = (N.to_nat order + 2)%nat /\
    (if t0 then List.length ints = (N.to_nat order + 2)%nat /\ Forall se_small ints else ints = []).

  Lemma poly_piece_ws p wb pc i w w' order ints fracs :
    write_poly_piece p h wb pc i w = Ok w' -> poly_entry_ok pc i order ints fracs ->
    exists bs, w' = wput w bs /\
      forall pc0, reads (parse_poly_piece Debug h ib pc0) bs
                        (mkPoly (poly_order_minus1 pc0 ++ [order]) (linear_interp_flag pc0 ++ [false])
                                (poly_coef_int pc0 ++ [ints]) (poly_coef pc0 ++ [fracs])).
  Proof.
    intros H (Ho & Hle & Hi & Hci & Hc & Hlf & Hti). unfold write_poly_piece, nth_or_panic in H.
    rewrite Ho in H. cbn [bind] in H.
    destruct (write_ue p order w) as [w1| |s] eqn:E1; cbn [bind] in H; try discriminate.
    assert (Ho64 : order + 1 < two64) by (unfold two64; lia).
    destruct (write_ue_reads _ _ _ _ E1 Ho64) as (b1 & -> & Hr1).
    rewrite Hi, Hc in H. fold t0 in H. rewrite Hci in H.
    assert (Hsm : ints_small h (if t0 then ints else [])).
    { unfold ints_small. fold t0. intros Et. rewrite Et in Hti |- *. apply Hti. }
    destruct (order =? 0) eqn:E0; cbn [bind andb] in H.
    - unfold write_bit in H. cbn [bind] in H.
      assert (H' : write_coefs p h (if t0 then ints else []) fracs 0 (N.to_nat order + 2) (wput (wput w b1) [false]) = Ok w')
        by (destruct t0; exact H).
      destruct (write_coefs_reads h Hlen p _ _ _ _ _ _ H' Hsm) as (b3 & -> & Hr3).
      exists (b1 ++ [false] ++ b3). split; [rewrite !wput_app; reflexivity|].
      intros pc0 rest pos. unfold parse_poly_piece. rewrite <- !app_assoc. rewrite (Hr1 Debug). cbn [bind].
      replace (order <=? 1) with true by (symmetry; apply N.leb_le; exact Hle). cbn [ensure bind]. rewrite E0.
      cbn [app]. unfold get at 1. cbn [rbits rpos bind andb]. rewrite Hr3. cbn [bind].
      f_equal. f_equal.
      + f_equal.
        * f_equal. fold t0. destruct t0 eqn:Et.
          -- rewrite (ints_of_coefs_at_t0 h _ _ Et) by (cbn; lia). reflexivity.
          -- rewrite Hti. rewrite (ints_of_coefs_at_nt0 h _ _ Et). reflexivity.
        * f_equal. rewrite fracs_of_coefs_at by (cbn; lia). reflexivity.
      + f_equal. rewrite !app_length. cbn [List.length]. lia.
    - assert (H' : write_coefs p h (if t0 then ints else []) fracs 0 (N.to_nat order + 2) (wput w b1) = Ok w')
        by (destruct t0; exact H).
      destruct (write_coefs_reads h Hlen p _ _ _ _ _ _ H' Hsm) as (b3 & -> & Hr3).
      exists (b1 ++ b3). split; [rewrite !wput_app; reflexivity|].
      intros pc0 rest pos. unfold parse_poly_piece. rewrite <- !app_assoc. rewrite (Hr1 Debug). cbn [bind].
      replace (order <=? 1) with true by (symmetry; apply N.leb_le; exact Hle). cbn [ensure bind]. rewrite E0.
      cbn [bind andb]. rewrite Hr3. cbn [bind].
      f_equal. f_equal.
      + f_equal.
        * f_equal. fold t0. destruct t0 eqn:Et.
          -- rewrite (ints_of_coefs_at_t0 h _ _ Et) by (cbn; lia). reflexivity.
          -- rewrite Hti. rewrite (ints_of_coefs_at_nt0 h _ _ Et). reflexivity.
        * f_equal. rewrite fracs_of_coefs_at by (cbn; lia). reflexivity.
      + f_equal. rewrite !app_length. lia.
  Qed.
End PiecesWS.

Section MmrWS.
  Context (h : header).
  Let t0 := coefficient_data_type h =? 0.
  Let len := coefficient_log2_denom_length h.
  Context (Hlen : len < 64).

  (* a row of 7 coefficients as held in memory *)
  Definition row_ok (irow : list Z) (frow : list N) : Prop :=
    List.length frow = 7%nat /\ (if t0 then List.length irow = 7%nat /\ Forall se_small irow else irow = []).

  Lemma row_ws p irow frow w w' :
    write_coefs p h (if t0 then irow else []) frow 0 7 w = Ok w' -> row_ok irow frow ->
    exists bs, w' = wput w bs /\
      exists cs, reads (get_coefs Debug h 7) bs cs /\ ints_of cs = irow /\ fracs_of cs = frow.
  Proof.
    intros H (Hlf & Hti).
    assert (Hsm : ints_small h (if t0 then irow else [])).
    { unfold ints_small. fold t0. intros Et. rewrite Et in Hti |- *. apply Hti. }
    destruct (write_coefs_reads h Hlen p _ _ _ _ _ _ H Hsm) as (bs & -> & Hr).
    exists bs. split; [reflexivity|]. eexists. split; [exact Hr|]. split.
    - fold t0. destruct t0 eqn:Et.
      + rewrite (ints_of_coefs_at_t0 h _ _ Et) by (cbn; lia). reflexivity.
      + rewrite Hti. apply (ints_of_coefs_at_nt0 h _ _ Et).
    - rewrite fracs_of_coefs_at by (cbn; lia). reflexivity.
  Qed.

  Lemma rows_ws p : forall k ints fracs j w w',
    write_mmr_rows p h ints fracs j k w = Ok w' ->
    (forall q, (q < k)%nat -> exists irow frow, (if t0 then nth_error ints (j + q) = Some irow else irow = []) /\
                                                nth_error fracs (j + q) = Some frow /\ row_ok irow frow) ->
    exists bs, w' = wput w bs /\
      exists rows, reads (get_mmr_rows Debug h k) bs rows /\
        (forall q, (q < k)%nat -> (if t0 then nth_error ints (j + q) = nth_error (map ints_of rows) q else nth_error (map ints_of rows) q = Some []) /\
                                  nth_error fracs (j + q) = nth_error (map fracs_of rows) q) /\
        List.length rows = k.
  Proof.
    induction k as [|k IH]; intros ints fracs j w w' H Hok; cbn [write_mmr_rows] in H.
    - inversion H; subst. exists []. split; [symmetry; apply wput_nil|]. exists []. split.
      + intros rest pos. cbn. f_equal. f_equal. f_equal. lia.
      + split; [intros q Hq; lia|reflexivity].
    - fold t0 in H. unfold nth_or_panic in H.
      destruct (Hok 0%nat ltac:(lia)) as (irow & frow & Hi & Hf & Hrow). rewrite Nat.add_0_r in Hi, Hf.
      rewrite Hf in H.
      assert (Hir : (if t0 then match nth_error ints j with Some x => Ok x | None => Panic site_write_index end else Ok [])
                    = Ok (if t0 then irow else [])).
      { destruct t0; [rewrite Hi; reflexivity|reflexivity]. }
      rewrite Hir in H. cbn [bind] in H.
      destruct (write_coefs p h (if t0 then irow else []) frow 0 7 w) as [w1| |s] eqn:E1; cbn [bind] in H; try discriminate.
      destruct (row_ws _ _ _ _ _ E1 Hrow) as (b1 & -> & cs & Hr1 & Hci & Hcf).
      destruct (IH ints fracs (S j) _ _ H) as (b2 & -> & rows & Hr2 & Hrows & Hlr).
      { intros q Hq. destruct (Hok (S q) ltac:(lia)) as (ir & fr & A & B & C0).
        exists ir, fr. replace (S j + q)%nat with (j + S q)%nat by lia. auto. }
      exists (b1 ++ b2). split; [apply wput_app|]. exists (cs :: rows). split.
      + intros rest pos. cbn [get_mmr_rows]. rewrite <- app_assoc, Hr1. cbn [bind]. rewrite Hr2. cbn [bind].
        f_equal. f_equal. f_equal. rewrite app_length. lia.
      + split; [|cbn; lia]. intros [|q] Hq.
        * rewrite Nat.add_0_r. cbn [map nth_error]. rewrite Hci, Hcf, Hf. split; [|reflexivity].
          destruct t0; [exact Hi|subst irow; reflexivity].
        * destruct (Hrows q ltac:(lia)) as [A B]. replace (j + S q)%nat with (S j + q)%nat by lia.
          cbn [map nth_error]. split; assumption.
  Qed.
End MmrWS.

Lemma nth_error_ext2 {A} : forall (a b : list A), List.length a = List.length b ->
  (forall q, (q < List.length a)%nat -> nth_error a q = nth_error b q) -> a = b.
Proof.
  induction a as [|x a IH]; intros [|y b] Hl H; cbn in Hl; try discriminate; [reflexivity|].
  pose proof (H 0%nat ltac:(cbn; lia)) as H0. cbn in H0. inversion H0; subst. f_equal.
  apply IH; [lia|]. intros q Hq. apply (H (S q)). cbn. lia.
Qed.

Section MmrPieceWS.
  Context (h : header).
  Let t0 := coefficient_data_type h =? 0.
  Let len := coefficient_log2_denom_length h.
  Context (Hlen : len < 64).

  Definition mmr_entry_ok (mc : mmr_curve) (i : nat) (order : N) (ci : option Z) (cst : N)
             (irows : list (list Z)) (frows : list (list N)) : Prop :=
    nth_error (mmr_order_minus1 mc) i = Some order /\ order <= 2 /\
    nth_error (mmr_constant mc) i = Some cst /\
    (if t0 then exists v, ci = Some v /\ nth_error (mmr_constant_int mc) i = Some v /\ se_small v else ci = None) /\
    nth_error (mmr_coef_int mc) i = Some irows /\ nth_error (mmr_coef mc) i = Some frows /\
    List.length frows = (N.to_nat order + 1)%nat /\ List.length irows = (N.to_nat order + 1)%nat /\
    (forall q, (q < N.to_nat order + 1)%nat ->
       exists irow frow, nth_error irows q = Some irow /\ nth_error frows q = Some frow /\ row_ok h irow frow).

  Lemma mmr_piece_ws p mc i w w' order ci cst irows frows :
    write_mmr_piece p h mc i w = Ok w' -> mmr_entry_ok mc i order ci cst irows frows ->
    exists bs, w' = wput w bs /\
      forall mc0, reads (parse_mmr_piece Debug h mc0) bs
                        (mkMmr (mmr_order_minus1 mc0 ++ [order])
                               (mmr_constant_int mc0 ++ match ci with Some v => [v] | None => [] end)
                               (mmr_constant mc0 ++ [cst]) (mmr_coef_int mc0 ++ [irows]) (mmr_coef mc0 ++ [frows])).
  Proof.
    intros H (Ho & Hle & Hc & Hci & Hir & Hfr & Hlf & Hli & Hrows). unfold write_mmr_piece, nth_or_panic in H.
    rewrite Ho in H. cbn [bind] in H.
    destruct (write_n 8 2 order w) as [w1| |s] eqn:E1; cbn [bind] in H; try discriminate.
    destruct (write_n_reads_lt _ _ _ _ _ E1 ltac:(lia)) as (b1 & -> & Hr1).
    fold t0 in H. fold len in H.
    (* the constant *)
    assert (Hcst : exists b2 w2,
               (let* w0 := (if t0 then (let* v := match nth_error (mmr_constant_int mc) i with Some x => Ok x | None => Panic site_write_index end in write_se p v (wput w b1)) else Ok (wput w b1)) in
                let* c := match nth_error (mmr_constant mc) i with Some x => Ok x | None => Panic site_write_index end in
                write_n 64 len c w0) = Ok w2 /\ w2 = wput (wput w b1) b2 /\
               reads (get_coef Debug h) b2 (ci, cst)).
    { rewrite Hc. destruct t0 eqn:Et.
      - destruct Hci as (v & -> & Hv & Hsm). rewrite Hv in H |- *. cbn [bind] in H |- *.
        destruct (write_se p v (wput w b1)) as [wa| |s] eqn:Ea; cbn [bind] in H |- *; try discriminate.
        destruct (write_se_reads _ _ _ _ Ea Hsm) as (ba & -> & Hra).
        rewrite Hc in H. cbn [bind] in H.
        destruct (write_n 64 len cst (wput (wput w b1) ba)) as [wb| |s] eqn:Eb; cbn [bind] in H; try discriminate.
        destruct (write_n_reads_lt _ _ _ _ _ Eb Hlen) as (bb & -> & Hrb).
        exists (ba ++ bb), (wput (wput (wput w b1) ba) bb). split; [reflexivity|]. split; [rewrite !wput_app; reflexivity|].
        intros rest pos. unfold get_coef. fold t0. rewrite Et. rewrite <- app_assoc, (Hra Debug). cbn [bind].
        fold len. rewrite Hrb. cbn [bind]. f_equal. f_equal. f_equal. rewrite app_length. lia.
      - subst ci. cbn [bind] in H |- *. rewrite Hc in H. cbn [bind] in H.
        destruct (write_n 64 len cst (wput w b1)) as [wb| |s] eqn:Eb; cbn [bind] in H; try discriminate.
        destruct (write_n_reads_lt _ _ _ _ _ Eb Hlen) as (bb & -> & Hrb).
        exists bb, (wput (wput w b1) bb). split; [reflexivity|]. split; [reflexivity|].
        intros rest pos. unfold get_coef. fold t0. rewrite Et. cbn [bind]. fold len. rewrite Hrb. cbn [bind]. reflexivity. }
    destruct Hcst as (b2 & w2 & E2 & -> & Hr2).
    assert (H' : (let* ints := (if t0 then match nth_error (mmr_coef_int mc) i with Some x => Ok x | None => Panic site_write_index end else Ok []) in
                  let* fracs := match nth_error (mmr_coef mc) i with Some x => Ok x | None => Panic site_write_index end in
                  write_mmr_rows p h ints fracs 0 (N.to_nat order + 1) (wput (wput w b1) b2)) = Ok w').
    { revert H E2. destruct t0.
      - destruct (nth_error (mmr_constant_int mc) i) as [v|]; cbn [bind]; [|discriminate].
        destruct (write_se p v (wput w b1)) as [wa| |s]; cbn [bind]; try discriminate.
        rewrite Hc. cbn [bind]. destruct (write_n 64 len cst wa) as [wb| |s]; cbn [bind]; try discriminate.
        intros H E2. inversion E2; subst. exact H.
      - cbn [bind]. rewrite Hc. cbn [bind]. destruct (write_n 64 len cst (wput w b1)) as [wb| |s]; cbn [bind]; try discriminate.
        intros H E2. inversion E2; subst. exact H. }
    clear H E2. rewrite Hir, Hfr in H'.
    assert (H'' : write_mmr_rows p h (if t0 then irows else []) frows 0 (N.to_nat order + 1) (wput (wput w b1) b2) = Ok w')
      by (destruct t0; exact H').
    destruct (rows_ws h Hlen p _ _ _ _ _ _ H'') as (b3 & -> & rows & Hr3 & Hrw & Hlr).
    { intros q Hq. destruct (Hrows q Hq) as (irow & frow & A & B & C0). exists irow, frow. cbn [Nat.add].
      split; [|split; assumption]. fold t0. destruct t0 eqn:Et; [exact A|].
      destruct C0 as [_ C1]. fold t0 in C1. rewrite Et in C1. exact C1. }
    exists (b1 ++ b2 ++ b3). split; [rewrite !wput_app; reflexivity|].
    intros mc0 rest pos. unfold parse_mmr_piece. rewrite <- !app_assoc. rewrite Hr1. cbn [bind].
    replace (order <=? 2) with true by (symmetry; apply N.leb_le; exact Hle). cbn [ensure bind].
    rewrite Hr2. cbn [bind]. rewrite Hr3. cbn [bind].
    assert (Ei : map ints_of rows = irows).
    { apply nth_error_ext2; [rewrite map_length; lia|]. intros q Hq. rewrite map_length in Hq.
      destruct (Hrw q ltac:(lia)) as [A _]. cbn [Nat.add] in A. fold t0 in A. destruct t0 eqn:Et; [symmetry; exact A|].
      rewrite A. destruct (Hrows q ltac:(lia)) as (irow & frow & B & _ & (_ & C1)). fold t0 in C1. rewrite Et in C1. subst irow. symmetry. exact B. }
    assert (Ef : map fracs_of rows = frows).
    { apply nth_error_ext2; [rewrite map_length; lia|]. intros q Hq. rewrite map_length in Hq.
      destruct (Hrw q ltac:(lia)) as [_ B]. cbn [Nat.add] in B. symmetry. exact B. }
    rewrite Ei, Ef. f_equal. f_equal. f_equal. rewrite !app_length. lia.
  Qed.
End MmrPieceWS.

(* ---------------------------------------------------------------- the pieces of a curve *)
Lemma firstn_S_nth {A} (l : list A) i x : nth_error l i = Some x -> firstn (S i) l = firstn i l ++ [x].
Proof.
  revert i. induction l as [|y t IH]; intros [|i] H; cbn in *; try discriminate.
  - inversion H. reflexivity.
  - f_equal. apply IH. exact H.
Qed.

Lemma ue_code_nonempty bs v : (forall p', reads (get_ue p') bs v) -> (1 <= List.length bs)%nat.
Proof.
  intros H. destruct bs as [|x t]; [|cbn; lia]. exfalso.
  specialize (H Debug [] 0). cbn [app] in H. unfold get_ue in H. cbn in H. discriminate.
Qed.

Section CurveWS.
  Context (h : header) (mb ib : bool).
  Let t0 := coefficient_data_type h =? 0.
  Let len := coefficient_log2_denom_length h.
  Context (Hlen : len < 64).

  Definition poly_prefix (pc : poly_curve) (i : nat) : poly_curve :=
    mkPoly (firstn i (poly_order_minus1 pc)) (firstn i (linear_interp_flag pc))
           (firstn i (poly_coef_int pc)) (firstn i (poly_coef pc)).
  Definition mmr_prefix (mc : mmr_curve) (i : nat) : mmr_curve :=
    mkMmr (firstn i (mmr_order_minus1 mc)) (if t0 then firstn i (mmr_constant_int mc) else [])
          (firstn i (mmr_constant mc)) (firstn i (mmr_coef_int mc)) (firstn i (mmr_coef mc)).

  (* the curve the parser holds after i pieces *)
  Definition poly_cur_at (c : curve) (pc : poly_curve) (i : nat) : curve :=
    match i with
    | O => mkCurve (num_pivots_minus2 c) (pivots c) 255 None None
    | _ => mkCurve (num_pivots_minus2 c) (pivots c) 0 (Some (poly_prefix pc i)) None
    end.
  Definition mmr_cur_at (c : curve) (mc : mmr_curve) (i : nat) : curve :=
    match i with
    | O => mkCurve (num_pivots_minus2 c) (pivots c) 255 None None
    | _ => mkCurve (num_pivots_minus2 c) (pivots c) 1 None (Some (mmr_prefix mc i))
    end.

  Lemma poly_pieces_ws p wb c pc : polynomial c = Some pc -> mapping_idc c = 0 ->
    forall k i w w', write_pieces p h wb c i k w = Ok w' ->
      (forall q, (q < k)%nat -> exists order ints fracs, poly_entry_ok h pc (i + q) order ints fracs) ->
      exists bs, w' = wput w bs /\ (k <= List.length bs)%nat /\
        forall fuel, (k <= fuel)%nat ->
          reads (parse_pieces Debug h mb ib fuel (N.of_nat k) (poly_cur_at c pc i)) bs (poly_cur_at c pc (i + k)).
  Proof.
    intros Hpc Hidc. induction k as [|k IH]; intros i w w' H Hok; cbn [write_pieces] in H.
    - inversion H; subst. exists []. split; [symmetry; apply wput_nil|]. split; [cbn; lia|]. intros fuel _ rest pos.
      rewrite Nat.add_0_r. destruct fuel; cbn; (f_equal; f_equal; f_equal; lia).
    - rewrite Hidc, Hpc in H.
      destruct (write_ue p 0 w) as [w1| |s] eqn:E1; cbn [bind] in H; try discriminate.
      destruct (write_ue_reads _ _ _ _ E1 ltac:(reflexivity)) as (b1 & -> & Hr1).
      destruct (write_poly_piece p h wb pc i (wput w b1)) as [w2| |s] eqn:E2; cbn [bind] in H; try discriminate.
      destruct (Hok 0%nat ltac:(lia)) as (order & ints & fracs & Hent). rewrite Nat.add_0_r in Hent.
      destruct (poly_piece_ws h ib Hlen p wb pc i _ _ order ints fracs E2 Hent) as (b2 & -> & Hr2).
      destruct (IH (S i) _ _ H) as (b3 & -> & Hl3 & Hr3).
      { intros q Hq. destruct (Hok (S q) ltac:(lia)) as (o & a & b & E). exists o, a, b.
        replace (S i + q)%nat with (i + S q)%nat by lia. exact E. }
      exists (b1 ++ b2 ++ b3). split; [rewrite !wput_app; reflexivity|].
      split; [pose proof (ue_code_nonempty _ _ Hr1); rewrite !app_length; lia|].
      intros fuel Hf rest pos. destruct fuel as [|f]; [lia|]. cbn [parse_pieces].
      replace (N.of_nat (S k) =? 0) with false by (symmetry; apply N.eqb_neq; lia).
      rewrite <- !app_assoc. rewrite (Hr1 Debug). cbn [bind N.leb N.compare N.eqb].
      set (pc0 := match polynomial (poly_cur_at c pc i) with Some x => x | None => empty_poly end).
      assert (Hpc0 : pc0 = poly_prefix pc i).
      { unfold pc0. destruct i; cbn [poly_cur_at polynomial]; reflexivity. }
      rewrite (Hr2 pc0). cbn [bind].
      replace (N.of_nat (S k) - 1) with (N.of_nat k) by lia.
      destruct Hent as (Ho & _ & Hi & Hci & Hc & _).
      assert (Hnext : mkCurve (num_pivots_minus2 (poly_cur_at c pc i)) (pivots (poly_cur_at c pc i)) 0
                        (Some (mkPoly (poly_order_minus1 pc0 ++ [order]) (linear_interp_flag pc0 ++ [false])
                                      (poly_coef_int pc0 ++ [ints]) (poly_coef pc0 ++ [fracs])))
                        (mmr (poly_cur_at c pc i)) = poly_cur_at c pc (S i)).
      { rewrite Hpc0. unfold poly_cur_at at 4. unfold poly_prefix. cbn [poly_order_minus1 linear_interp_flag poly_coef_int poly_coef].
        rewrite (firstn_S_nth _ _ _ Ho), (firstn_S_nth _ _ _ Hi), (firstn_S_nth _ _ _ Hci), (firstn_S_nth _ _ _ Hc).
        destruct i; reflexivity. }
      rewrite Hnext. rewrite (Hr3 f ltac:(lia)). f_equal. f_equal.
      + replace (i + S k)%nat with (S i + k)%nat by lia. reflexivity.
      + f_equal. rewrite !app_length. lia.
  Qed.
  Lemma mmr_pieces_ws p wb c mc : polynomial c = None -> mmr c = Some mc -> mapping_idc c = 1 ->
    forall k i w w', write_pieces p h wb c i k w = Ok w' ->
      (forall q, (q < k)%nat -> exists order ci cst irows frows, mmr_entry_ok h mc (i + q) order ci cst irows frows) ->
      exists bs, w' = wput w bs /\ (k <= List.length bs)%nat /\
        forall fuel, (k <= fuel)%nat ->
          reads (parse_pieces Debug h mb ib fuel (N.of_nat k) (mmr_cur_at c mc i)) bs (mmr_cur_at c mc (i + k)).
  Proof.
    intros Hpn Hmc Hidc. induction k as [|k IH]; intros i w w' H Hok; cbn [write_pieces] in H.
    - inversion H; subst. exists []. split; [symmetry; apply wput_nil|]. split; [cbn; lia|]. intros fuel _ rest pos.
      rewrite Nat.add_0_r. destruct fuel; cbn; (f_equal; f_equal; f_equal; lia).
    - rewrite Hidc, Hpn, Hmc in H.
      destruct (write_ue p 1 w) as [w1| |s] eqn:E1; cbn [bind] in H; try discriminate.
      destruct (write_ue_reads _ _ _ _ E1 ltac:(reflexivity)) as (b1 & -> & Hr1).
      destruct (write_mmr_piece p h mc i (wput w b1)) as [w2| |s] eqn:E2; cbn [bind] in H; try discriminate.
      destruct (Hok 0%nat ltac:(lia)) as (order & ci & cst & irows & frows & Hent). rewrite Nat.add_0_r in Hent.
      destruct (mmr_piece_ws h Hlen p mc i _ _ order ci cst irows frows E2 Hent) as (b2 & -> & Hr2).
      destruct (IH (S i) _ _ H) as (b3 & -> & Hl3 & Hr3).
      { intros q Hq. destruct (Hok (S q) ltac:(lia)) as (o & a & b & d & e & E). exists o, a, b, d, e.
        replace (S i + q)%nat with (i + S q)%nat by lia. exact E. }
      exists (b1 ++ b2 ++ b3). split; [rewrite !wput_app; reflexivity|].
      split; [pose proof (ue_code_nonempty _ _ Hr1); rewrite !app_length; lia|].
      intros fuel Hf rest pos. destruct fuel as [|f]; [lia|]. cbn [parse_pieces].
      replace (N.of_nat (S k) =? 0) with false by (symmetry; apply N.eqb_neq; lia).
      rewrite <- !app_assoc. rewrite (Hr1 Debug). cbn [bind N.leb N.compare Pos.compare Pos.compare_cont N.eqb].
      set (mc0 := match mmr (mmr_cur_at c mc i) with Some x => x | None => empty_mmr end).
      assert (Hmc0 : mc0 = mmr_prefix mc i).
      { unfold mc0. destruct i; cbn [mmr_cur_at mmr]; [|reflexivity]. unfold mmr_prefix, empty_mmr. cbn [firstn]. destruct t0; reflexivity. }
      rewrite (Hr2 mc0). cbn [bind].
      replace (N.of_nat (S k) - 1) with (N.of_nat k) by lia.
      destruct Hent as (Ho & _ & Hc & Hci & Hir & Hfr & _).
      assert (Hnext : mkCurve (num_pivots_minus2 (mmr_cur_at c mc i)) (pivots (mmr_cur_at c mc i)) 1
                        (polynomial (mmr_cur_at c mc i))
                        (Some (mkMmr (mmr_order_minus1 mc0 ++ [order])
                                     (mmr_constant_int mc0 ++ match ci with Some v => [v] | None => [] end)
                                     (mmr_constant mc0 ++ [cst]) (mmr_coef_int mc0 ++ [irows]) (mmr_coef mc0 ++ [frows])))
                      = mmr_cur_at c mc (S i)).
      { rewrite Hmc0. unfold mmr_cur_at at 4. unfold mmr_prefix. cbn [mmr_order_minus1 mmr_constant_int mmr_constant mmr_coef_int mmr_coef].
        rewrite (firstn_S_nth _ _ _ Ho), (firstn_S_nth _ _ _ Hc), (firstn_S_nth _ _ _ Hir), (firstn_S_nth _ _ _ Hfr).
        fold t0 in Hci. destruct t0 eqn:Et.
        - destruct Hci as (v & -> & Hv & _). rewrite (firstn_S_nth _ _ _ Hv). destruct i; reflexivity.
        - subst ci. rewrite app_nil_r. destruct i; reflexivity. }
      rewrite Hnext. rewrite (Hr3 f ltac:(lia)). f_equal. f_equal.
      + replace (i + S k)%nat with (S i + k)%nat by lia. reflexivity.
      + f_equal. rewrite !app_length. lia.
  Qed.
End CurveWS.

(* ---------------------------------------------------------------- NLQ *)
Section NlqWS.
  Context (h : header).
  Let t0 := coefficient_data_type h =? 0.
  Let len := coefficient_log2_denom_length h.
  Context (Hlen : len < 64) (Hel : el_bit_depth_minus8 h + 8 < 16).

  Definition three {A} (l : list A) : Prop := List.length l = 3%nat.
  Record nlq_canonical (q : nlq) : Prop := {
    nq_off : three (nlq_offset q); nq_max : three (vdr_in_max q); nq_sl : three (ld_slope q); nq_th : three (ld_threshold q);
    nq_maxi : three (vdr_in_max_int q); nq_sli : three (ld_slope_int q); nq_thi : three (ld_threshold_int q);
    nq_ints : Forall (fun v => if t0 then v + 1 < two64 else v = 0) (vdr_in_max_int q ++ ld_slope_int q ++ ld_threshold_int q) }.

  Ltac nlq_n H :=
    rewrite ?bind_assoc' in H;
    match type of H with
    | bind (write_n 16 ?n ?v ?w) _ = _ =>
        let E := fresh "E" in let w1 := fresh "w" in let b := fresh "b" in let R := fresh "R" in
        destruct (write_n 16 n v w) as [w1| |] eqn:E; cbn [bind] in H; [|discriminate|discriminate];
        apply write_n_reads_lt in E; [destruct E as (b & -> & R)|lia]
    | bind (write_n 64 ?n ?v ?w) _ = _ =>
        let E := fresh "E" in let w1 := fresh "w" in let b := fresh "b" in let R := fresh "R" in
        destruct (write_n 64 n v w) as [w1| |] eqn:E; cbn [bind] in H; [|discriminate|discriminate];
        apply write_n_reads_lt in E; [destruct E as (b & -> & R)|exact Hlen]
    | write_n 64 ?n ?v ?w = _ =>
        let b := fresh "b" in let R := fresh "R" in
        apply write_n_reads_lt in H; [destruct H as (b & -> & R)|exact Hlen]
    | bind (write_ue ?p ?v ?w) _ = _ =>
        let E := fresh "E" in let w1 := fresh "w" in let b := fresh "b" in let R := fresh "R" in
        destruct (write_ue p v w) as [w1| |] eqn:E; cbn [bind] in H; [|discriminate|discriminate];
        apply write_ue_reads in E; [destruct E as (b & -> & R)|assumption]
    end.

  Theorem nlq_write_sound p m q w w' :
    write_nlq p h m q w = Ok w' -> nlq_canonical q -> is_some (nlq_method_idc m) = true ->
    exists bs, w' = wput w bs /\ reads (parse_nlq Debug h) bs q.
  Proof.
    intros H [H1 H2 H3 H4 H5 H6 H7 Hi] Hm. unfold three in *.
    destruct q as [off maxi mx sli sl thi th]. cbn [nlq_offset vdr_in_max_int vdr_in_max ld_slope_int ld_slope ld_threshold_int ld_threshold] in *.
    destruct off as [|o0 [|o1 [|o2 [|]]]]; try discriminate.
    destruct mx as [|m0 [|m1 [|m2 [|]]]]; try discriminate.
    destruct sl as [|s0 [|s1 [|s2 [|]]]]; try discriminate.
    destruct th as [|t0' [|t1 [|t2 [|]]]]; try discriminate.
    destruct maxi as [|mi0 [|mi1 [|mi2 [|]]]]; try discriminate.
    destruct sli as [|si0 [|si1 [|si2 [|]]]]; try discriminate.
    destruct thi as [|ti0 [|ti1 [|ti2 [|]]]]; try discriminate.
    cbn [app] in Hi. repeat match goal with Hx : Forall _ (_ :: _) |- _ => inversion Hx; clear Hx; subst end.
    assert (Emod : (el_bit_depth_minus8 h + 8) mod 4294967296 = el_bit_depth_minus8 h + 8) by (apply N.mod_small; lia).
    unfold write_nlq, nth_or_panic in H. rewrite Hm, Emod in H. fold t0 in H. fold len in H.
    cbn [nlq_offset vdr_in_max_int vdr_in_max ld_slope_int ld_slope ld_threshold_int ld_threshold nth_error bind] in H.
    destruct t0 eqn:Et.
    - cbn [bind] in H.
      nlq_n H. nlq_n H. nlq_n H. nlq_n H. nlq_n H. nlq_n H. nlq_n H.
      nlq_n H. nlq_n H. nlq_n H. nlq_n H. nlq_n H. nlq_n H. nlq_n H.
      nlq_n H. nlq_n H. nlq_n H. nlq_n H. nlq_n H. nlq_n H. nlq_n H.
      eexists. split; [rewrite !wput_app; reflexivity|]. intros rest pos. unfold parse_nlq. fold t0. rewrite Et. fold len.
      rewrite <- !app_assoc.
      repeat first
        [ match goal with R : reads (get_n ?tb ?n) ?b ?v |- context [get_n ?tb ?n (mkR (?b ++ _) _)] => rewrite R; clear R; cbn [bind] end
        | match goal with R : forall p', reads (get_ue p') ?b ?v |- context [get_ue Debug (mkR (?b ++ _) _)] => rewrite (R Debug); clear R; cbn [bind] end ].
      cbn [map]. match goal with |- Ok (_, mkR _ ?p1) = Ok (_, mkR _ ?p2) => replace p1 with p2; [reflexivity|] end.
      repeat first [rewrite app_length | progress cbn [List.length]]. repeat match goal with Hx : _ |- _ => clear Hx end. lia.
    - cbn [bind] in H. subst.
      nlq_n H. nlq_n H. nlq_n H. nlq_n H.
      nlq_n H. nlq_n H. nlq_n H. nlq_n H.
      nlq_n H. nlq_n H. nlq_n H. nlq_n H.
      eexists. split; [rewrite !wput_app; reflexivity|]. intros rest pos. unfold parse_nlq. fold t0. rewrite Et. fold len.
      rewrite <- !app_assoc.
      repeat first
        [ match goal with R : reads (get_n ?tb ?n) ?b ?v |- context [get_n ?tb ?n (mkR (?b ++ _) _)] => rewrite R; clear R; cbn [bind] end ].
      cbn [map]. match goal with |- Ok (_, mkR _ ?p1) = Ok (_, mkR _ ?p2) => replace p1 with p2; [reflexivity|] end.
      repeat first [rewrite app_length | progress cbn [List.length]]. repeat match goal with Hx : _ |- _ => clear Hx end. lia.
  Qed.
End NlqWS.

(* ---------------------------------------------------------------- pivots *)
Lemma wput_inj w a b : wput w a = wput w b -> a = b.
Proof. intros H. apply (f_equal wbits) in H. rewrite !wbits_wput in H. apply app_inv_head in H. exact H. Qed.

Lemma write_n_reads_len tb n v w w' : write_n tb n v w = Ok w' -> n < tb ->
  exists bs, w' = wput w bs /\ List.length bs = N.to_nat n /\ reads (get_n tb n) bs v.
Proof.
  intros H Hn. destruct (write_n_reads_lt _ _ _ _ _ H Hn) as (bs & -> & Hr).
  exists bs. split; [reflexivity|]. split; [|exact Hr].
  unfold write_n in H. destruct (tb <? n); [discriminate|]. destruct (_ && _); [discriminate|].
  apply ok_inj in H. apply wput_inj in H. rewrite <- H. apply enc_length.
Qed.

Lemma write_ns_reads_pivots tb bl (Hbl : bl < tb) : forall pv w w', write_ns tb bl pv w = Ok w' ->
  exists bs, w' = wput w bs /\ List.length bs = (List.length pv * N.to_nat bl)%nat /\
    (tb = 16 -> forall fuel, (List.length pv <= fuel)%nat -> reads (get_pivots fuel (N.of_nat (List.length pv)) bl) bs pv) /\
    reads (get_ns tb bl (List.length pv)) bs pv.
Proof.
  induction pv as [|v t IH]; intros w w' H; cbn [write_ns] in H.
  - inversion H; subst. exists []. split; [symmetry; apply wput_nil|]. split; [reflexivity|]. split.
    + intros _ fuel _ rest pos. destruct fuel; cbn; (f_equal; f_equal; f_equal; lia).
    + intros rest pos. cbn. f_equal. f_equal. f_equal. lia.
  - destruct (write_n tb bl v w) as [w1| |s] eqn:E1; cbn [bind] in H; try discriminate.
    destruct (write_n_reads_len _ _ _ _ _ E1 Hbl) as (b1 & -> & Hl1 & Hr1).
    destruct (IH _ _ H) as (b2 & -> & Hl2 & Hp2 & Hn2).
    exists (b1 ++ b2). split; [apply wput_app|]. split; [rewrite app_length; cbn [List.length]; lia|]. split.
    + intros -> fuel Hf rest pos. destruct fuel as [|f]; [cbn in Hf; lia|]. cbn [get_pivots List.length].
      replace (N.of_nat (S (List.length t)) =? 0) with false by (symmetry; apply N.eqb_neq; lia).
      rewrite <- app_assoc, Hr1. cbn [bind].
      replace (N.of_nat (S (List.length t)) - 1) with (N.of_nat (List.length t)) by lia.
      rewrite (Hp2 eq_refl f) by (cbn in Hf; lia). cbn [bind]. f_equal. f_equal. f_equal. rewrite app_length. lia.
    + intros rest pos. cbn [get_ns List.length]. rewrite <- app_assoc, Hr1. cbn [bind]. rewrite Hn2. cbn [bind].
      f_equal. f_equal. f_equal. rewrite app_length. lia.
Qed.

(* ---------------------------------------------------------------- the whole mapping *)
Lemma firstn_len {A} (l : list A) k : List.length l = k -> firstn k l = l.
Proof. intros <-. apply firstn_all. Qed.

Section MappingWSTop.
  Context (sw : src_switches) (h : header).
  Let t0 := coefficient_data_type h =? 0.
  Let len := coefficient_log2_denom_length h.
  Let bl := (bl_bit_depth_minus8 h + 8) mod 4294967296.
  Context (Hlen : len < 64) (Hel : el_bit_depth_minus8 h + 8 < 16) (Hbl : bl < 16) (Hbl1 : 1 <= bl).

  Definition curve_canonical (c : curve) : Prop :=
    let n := num_pivots_minus2 c in
    let k := N.to_nat (n + 1) in
    n + 1 < two64 /\
    match sw_pivots_bound sw with Some b => n <= b | None => n <= 1000000 end /\
    List.length (pivots c) = N.to_nat (n + 2) /\
    ((exists pc, polynomial c = Some pc /\ mmr c = None /\ mapping_idc c = 0 /\
        List.length (poly_order_minus1 pc) = k /\ List.length (linear_interp_flag pc) = k /\
        List.length (poly_coef_int pc) = k /\ List.length (poly_coef pc) = k /\
        forall q, (q < k)%nat -> exists order ints fracs, poly_entry_ok h pc q order ints fracs) \/
     (exists mc, polynomial c = None /\ mmr c = Some mc /\ mapping_idc c = 1 /\
        List.length (mmr_order_minus1 mc) = k /\ List.length (mmr_constant mc) = k /\
        List.length (mmr_coef_int mc) = k /\ List.length (mmr_coef mc) = k /\
        (if t0 then List.length (mmr_constant_int mc) = k else mmr_constant_int mc = []) /\
        forall q, (q < k)%nat -> exists order ci cst irows frows, mmr_entry_ok h mc q order ci cst irows frows)).

  Lemma curve_header_ws p c w w' : curve_canonical c ->
    (let* w1 := write_ue p (num_pivots_minus2 c) w in write_ns 16 bl (pivots c) w1) = Ok w' ->
    exists bs, w' = wput w bs /\
      reads (parse_curve_header Debug sw bl) bs (mkCurve (num_pivots_minus2 c) (pivots c) 255 None None).
  Proof.
    intros (Hn & Hb & Hlp & _) H.
    destruct (write_ue p (num_pivots_minus2 c) w) as [w1| |s] eqn:E1; cbn [bind] in H; try discriminate.
    assert (Hn64 : num_pivots_minus2 c + 1 < two64) by exact Hn.
    destruct (write_ue_reads _ _ _ _ E1 Hn64) as (b1 & -> & Hr1).
    destruct (write_ns_reads_pivots 16 bl Hbl _ _ _ H) as (b2 & -> & Hl2 & Hp2 & _).
    exists (b1 ++ b2). split; [apply wput_app|]. intros rest pos. unfold parse_curve_header.
    rewrite <- app_assoc, (Hr1 Debug). cbn [bind].
    assert (Hens : match sw_pivots_bound sw with
                   | Some k => ensure (num_pivots_minus2 c <=? k)
                   | None => if 1000000 <? num_pivots_minus2 c then Panic site_alloc else Ok tt end = Ok tt).
    { destruct (sw_pivots_bound sw) as [k|].
      - replace (num_pivots_minus2 c <=? k) with true by (symmetry; apply N.leb_le; exact Hb). reflexivity.
      - replace (1000000 <? num_pivots_minus2 c) with false by (symmetry; apply N.ltb_ge; exact Hb). reflexivity. }
    rewrite Hens. cbn [bind rbits].
    replace (num_pivots_minus2 c + 2) with (N.of_nat (List.length (pivots c))) by lia.
    rewrite (Hp2 eq_refl) by (rewrite app_length; nia). cbn [bind].
    f_equal. f_equal. f_equal. rewrite app_length. lia.
  Qed.

  Lemma curve_pieces_ws p c w w' : curve_canonical c ->
    (if sw_mixed_method_bail sw && negb (curve_consistent c) then Err
     else write_pieces p h (sw_write_interp_bail sw) c 0 (N.to_nat ((num_pivots_minus2 c + 1) mod 18446744073709551616)) w) = Ok w' ->
    exists bs, w' = wput w bs /\
      forall fuel, (List.length bs <= fuel)%nat ->
        reads (parse_pieces Debug h (sw_map_idc_bail sw) (sw_interp_bail sw) fuel (num_pivots_minus2 c + 1)
                            (mkCurve (num_pivots_minus2 c) (pivots c) 255 None None)) bs c.
  Proof.
    intros (Hn & _ & _ & Hcase) H.
    assert (Hmod : (num_pivots_minus2 c + 1) mod 18446744073709551616 = num_pivots_minus2 c + 1)
      by (apply N.mod_small; exact Hn).
    rewrite Hmod in H.
    remember (N.to_nat (num_pivots_minus2 c + 1)) as k eqn:Ek.
    assert (Hk : num_pivots_minus2 c + 1 = N.of_nat k) by lia.
    assert (Hk1 : (1 <= k)%nat) by lia.
    destruct (sw_mixed_method_bail sw && negb (curve_consistent c)); [discriminate|].
    destruct Hcase as [(pc & Hp & Hm & Hi & L1 & L2 & L3 & L4 & Hent)|(mc & Hp & Hm & Hi & L1 & L2 & L3 & L4 & L5 & Hent)].
    - destruct (poly_pieces_ws h (sw_map_idc_bail sw) (sw_interp_bail sw) Hlen p _ c pc Hp Hi k 0%nat _ _ H Hent) as (bs & -> & Hl & Hr).
      exists bs. split; [reflexivity|]. intros fuel Hf. rewrite Hk.
      assert (Hfin : poly_cur_at c pc (0 + k) = c).
      { cbn [Nat.add]. unfold poly_cur_at. destruct k as [|k']; [lia|].
        unfold poly_prefix. rewrite (firstn_len _ _ L1), (firstn_len _ _ L2), (firstn_len _ _ L3), (firstn_len _ _ L4).
        destruct c, pc; cbn in *. subst. reflexivity. }
      pose proof (Hr fuel ltac:(lia)) as Hrr. rewrite Hfin in Hrr. exact Hrr.
    - destruct (mmr_pieces_ws h (sw_map_idc_bail sw) (sw_interp_bail sw) Hlen p _ c mc Hp Hm Hi k 0%nat _ _ H Hent) as (bs & -> & Hl & Hr).
      exists bs. split; [reflexivity|]. intros fuel Hf. rewrite Hk.
      assert (Hfin : mmr_cur_at h c mc (0 + k) = c).
      { cbn [Nat.add]. unfold mmr_cur_at. destruct k as [|k']; [lia|].
        unfold mmr_prefix. rewrite (firstn_len _ _ L1), (firstn_len _ _ L2), (firstn_len _ _ L3), (firstn_len _ _ L4).
        fold t0 in L5 |- *. destruct t0.
        - rewrite (firstn_len _ _ L5). destruct c, mc; cbn in *. subst. reflexivity.
        - destruct c, mc; cbn in *. subst. reflexivity. }
      pose proof (Hr fuel ltac:(lia)) as Hrr. rewrite Hfin in Hrr. exact Hrr.
  Qed.
  Definition has_nlq : bool := seq_info_ok h && negb (disable_residual_flag h).

  Record mapping_canonical (m : mapping) : Prop := {
    mc_ids : vdr_rpu_id m + 1 < two64 /\ mapping_color_space m + 1 < two64 /\ mapping_chroma_format_idc m + 1 < two64 /\
             num_x_partitions_minus1 m + 1 < two64 /\ num_y_partitions_minus1 m + 1 < two64;
    mc_curves : exists c0 c1 c2, curves m = [c0; c1; c2] /\ curve_canonical c0 /\ curve_canonical c1 /\ curve_canonical c2;
    mc_nlq : if has_nlq
             then nlq_method_idc m = Some 0 /\ nlq_num_pivots_minus2 m = Some 0 /\
                  (exists a b, nlq_pred_pivot_value m = Some [a; b]) /\
                  exists q, mnlq m = Some q /\ nlq_canonical h q
             else nlq_method_idc m = None /\ nlq_num_pivots_minus2 m = None /\ nlq_pred_pivot_value m = None /\ mnlq m = None }.

  Theorem mapping_write_sound p m w w' :
    write_mapping p sw h m w = Ok w' -> mapping_canonical m ->
    exists bs, w' = wput w bs /\ reads (parse_mapping Debug sw h) bs m.
  Proof.
    intros H [(Hi1 & Hi2 & Hi3 & Hi4 & Hi5) (c0 & c1 & c2 & Ecs & Hc0 & Hc1 & Hc2) Hnlq].
    unfold write_mapping in H. cbv zeta in H. fold bl in H. rewrite Ecs in H.
    cbn [nth_or_panic nth_error bind] in H.
    destruct (write_ue p (vdr_rpu_id m) w) as [wa| |s] eqn:E1; cbn [bind] in H; try discriminate.
    destruct (write_ue_reads _ _ _ _ E1 Hi1) as (b1 & -> & R1).
    destruct (write_ue p (mapping_color_space m) _) as [wa| |s] eqn:E2; cbn [bind] in H; try discriminate.
    destruct (write_ue_reads _ _ _ _ E2 Hi2) as (b2 & -> & R2).
    destruct (write_ue p (mapping_chroma_format_idc m) _) as [wa| |s] eqn:E3; cbn [bind] in H; try discriminate.
    destruct (write_ue_reads _ _ _ _ E3 Hi3) as (b3 & -> & R3).
    match type of H with bind ?X _ = _ => destruct X as [wa| |s] eqn:E4; cbn [bind] in H; try discriminate end.
    destruct (curve_header_ws p c0 _ _ Hc0 E4) as (b4 & -> & R4).
    match type of H with bind ?X _ = _ => destruct X as [wa| |s] eqn:E5; cbn [bind] in H; try discriminate end.
    destruct (curve_header_ws p c1 _ _ Hc1 E5) as (b5 & -> & R5).
    match type of H with bind ?X _ = _ => destruct X as [wa| |s] eqn:E6; cbn [bind] in H; try discriminate end.
    destruct (curve_header_ws p c2 _ _ Hc2 E6) as (b6 & -> & R6).
    (* NLQ header *)
    fold has_nlq in H.
    match type of H with bind ?X _ = _ => destruct X as [wa| |s] eqn:E7; cbn [bind] in H; try discriminate end.
    assert (H7 : exists b7, wa = wput (wput (wput (wput (wput (wput (wput w b1) b2) b3) b4) b5) b6) b7 /\
               forall rest pos,
                 (if has_nlq
                  then (let* '(m0, r0) := get_n 8 3 (mkR (b7 ++ rest) pos) in let* _ := ensure (m0 =? 0) in
                        let* '(pv, r1) := get_ns 16 bl 2 r0 in Ok (Some 0, Some 0, Some pv, r1))
                  else Ok (None, None, None, mkR (b7 ++ rest) pos))
                 = Ok (nlq_method_idc m, nlq_num_pivots_minus2 m, nlq_pred_pivot_value m, mkR rest (pos + N.of_nat (List.length b7)))).
    { destruct has_nlq.
      - destruct Hnlq as (Hm0 & Hn0 & (a & b & Hpv) & _). rewrite Hm0, Hpv in E7.
        destruct (write_n 8 3 0 _) as [wb| |s] eqn:Ea; cbn [bind] in E7; try discriminate.
        destruct (write_n_reads_lt _ _ _ _ _ Ea ltac:(reflexivity)) as (x1 & -> & Rx1).
        destruct (write_ns_reads_pivots 16 bl Hbl _ _ _ E7) as (x2 & -> & _ & _ & Rx2).
        exists (x1 ++ x2). split; [rewrite wput_app; reflexivity|]. intros rest pos.
        rewrite <- app_assoc, Rx1. cbn [bind ensure N.eqb]. rewrite Rx2. cbn [bind].
        rewrite Hm0, Hn0, Hpv. f_equal. f_equal. f_equal. rewrite app_length. lia.
      - inversion E7; subst wa. destruct Hnlq as (-> & -> & -> & _). exists []. split; [symmetry; apply wput_nil|].
        intros rest pos. cbn [app List.length]. f_equal. f_equal. f_equal. lia. }
    destruct H7 as (b7 & -> & R7). clear E7.
    destruct (write_ue p (num_x_partitions_minus1 m) _) as [wa| |s] eqn:E8; cbn [bind] in H; try discriminate.
    destruct (write_ue_reads _ _ _ _ E8 Hi4) as (b8 & -> & R8).
    destruct (write_ue p (num_y_partitions_minus1 m) _) as [wa| |s] eqn:E9; cbn [bind] in H; try discriminate.
    destruct (write_ue_reads _ _ _ _ E9 Hi5) as (b9 & -> & R9).
    match type of H with bind ?X _ = _ => destruct X as [wa| |s] eqn:E10; cbn [bind] in H; try discriminate end.
    destruct (curve_pieces_ws p c0 _ _ Hc0 E10) as (b10 & -> & R10).
    match type of H with bind ?X _ = _ => destruct X as [wa| |s] eqn:E11; cbn [bind] in H; try discriminate end.
    destruct (curve_pieces_ws p c1 _ _ Hc1 E11) as (b11 & -> & R11).
    match type of H with bind ?X _ = _ => destruct X as [wa| |s] eqn:E12; cbn [bind] in H; try discriminate end.
    destruct (curve_pieces_ws p c2 _ _ Hc2 E12) as (b12 & -> & R12).
    (* NLQ body *)
    assert (H13 : exists b13, w' = wput (wput (wput (wput (wput (wput (wput (wput (wput (wput (wput (wput (wput w b1) b2) b3) b4) b5) b6) b7) b8) b9) b10) b11) b12) b13 /\
               forall rest pos,
                 match nlq_method_idc m with
                 | Some _ => let* '(q, r) := parse_nlq Debug h (mkR (b13 ++ rest) pos) in Ok (Some q, r)
                 | None => Ok (None, mkR (b13 ++ rest) pos)
                 end = Ok (mnlq m, mkR rest (pos + N.of_nat (List.length b13)))).
    { unfold has_nlq in Hnlq. destruct (seq_info_ok h && negb (disable_residual_flag h)).
      - destruct Hnlq as (Hm0 & _ & _ & q & Hq & Hqc). rewrite Hq in H.
        destruct (nlq_write_sound h Hlen Hel p m q _ _ H Hqc ltac:(rewrite Hm0; reflexivity)) as (b13 & -> & R13).
        exists b13. split; [reflexivity|]. intros rest pos. rewrite Hm0, R13. cbn [bind]. rewrite Hq. reflexivity.
      - destruct Hnlq as (Hm0 & _ & _ & Hq). rewrite Hq in H. inversion H; subst w'. exists []. split; [symmetry; apply wput_nil|].
        intros rest pos. rewrite Hm0, Hq. cbn [app List.length]. f_equal. f_equal. f_equal. lia. }
    destruct H13 as (b13 & -> & R13). clear H.
    exists (b1 ++ b2 ++ b3 ++ b4 ++ b5 ++ b6 ++ b7 ++ b8 ++ b9 ++ b10 ++ b11 ++ b12 ++ b13).
    split; [rewrite !wput_app; reflexivity|].
    intros rest pos. unfold parse_mapping. cbv zeta. fold bl. fold has_nlq. rewrite <- !app_assoc.
    rewrite (R1 Debug). cbn [bind]. rewrite (R2 Debug). cbn [bind]. rewrite (R3 Debug). cbn [bind].
    rewrite R4. cbn [bind]. rewrite R5. cbn [bind]. rewrite R6. cbn [bind].
    rewrite R7. cbn [bind]. rewrite (R8 Debug). cbn [bind]. rewrite (R9 Debug). cbn [bind].
    cbn [num_pivots_minus2 rbits].
    rewrite R10 by (rewrite !app_length; lia). cbn [bind rbits].
    rewrite R11 by (rewrite !app_length; lia). cbn [bind rbits].
    rewrite R12 by (rewrite !app_length; lia). cbn [bind].
    rewrite R13. cbn [bind].
    match goal with |- Ok (?a, mkR _ ?p1) = Ok (?b, mkR _ ?p2) => replace p1 with p2; [|rewrite !app_length; lia] end.
    f_equal. f_equal. destruct m. cbn in *. subst. reflexivity.
  Qed.
End MappingWSTop.
