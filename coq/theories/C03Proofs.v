(* Write-side soundness (C03): what is encoded decodes back; out-of-range values are rejected. *)
From Coq Require Import List NArith ZArith Lia Bool String.
From DV Require Import Outcome Bits BitIO Av1 Fields Blocks Rpu Ops Tables FieldsProofs C02Proofs C08Proofs Av1Proofs.
From DVgen Require Import Blocks_gen DmData_gen Switches_gen.
Import ListNotations.
Open Scope N_scope.

Fixpoint present_vals (prog : list fld) (len : N) (vs : list Z) : list Z :=
  match prog, vs with
  | f :: t, v :: vt => (if present f len then v else f_def f) :: present_vals t len vt
  | _, _ => []
  end.

Lemma write_n_rejects tb n v w : n < tb -> 2 ^ n <= v -> write_n tb n v w = Err.
Proof.
  intros H1 H2. unfold write_n.
  replace (tb <? n) with false by (symmetry; apply N.ltb_ge; lia).
  replace (n <? tb) with true by (symmetry; apply N.ltb_lt; exact H1).
  replace (2 ^ n <=? v) with true by (symmetry; apply N.leb_le; exact H2). reflexivity.
Qed.

Lemma write_n_inv tb n v w w' :
  write_n tb n v w = Ok w' -> n <= tb /\ (n < tb -> v < 2 ^ n) /\ w' = wput w (enc (N.to_nat n) v).
Proof.
  unfold write_n. destruct (tb <? n) eqn:E1; [discriminate|]. apply N.ltb_ge in E1.
  destruct ((n <? tb) && (2 ^ n <=? v)) eqn:E2; [discriminate|].
  intros H. inversion H; subst. split; [exact E1|]. split; [|reflexivity].
  intros Hlt. apply andb_false_iff in E2 as [E2|E2].
  - apply N.ltb_ge in E2. lia.
  - apply N.leb_gt in E2. exact E2.
Qed.

Lemma pow2_pos k : 0 < 2 ^ k.
Proof. apply N.neq_0_lt_0. apply N.pow_nonzero. lia. Qed.

Lemma z_pow_n k : (2 ^ Z.of_N k = Z.of_N (2 ^ k))%Z.
Proof. rewrite N2Z.inj_pow. reflexivity. Qed.

Lemma enc_dec_field p f len v w w' :
  fld_wf f = true -> is_ue f = false -> in_type f v = true ->
  enc_field p f len v w = Ok w' ->
  exists bs, w' = wput w bs /\
    forall rest pos, dec_field p f len (mkR (bs ++ rest) pos)
                     = Ok ((if present f len then v else f_def f), mkR rest (pos + N.of_nat (List.length bs))).
Proof.
  intros Hwf Hue Hty H. unfold enc_field in H. unfold dec_field.
  destruct (present f len).
  2:{ inversion H; subst. exists []. split; [symmetry; apply wput_nil|]. intros rest pos. cbn.
      f_equal. f_equal. f_equal. lia. }
  unfold fld_wf, is_ue, in_type in *. destruct (f_k f) eqn:Ek; try discriminate.
  - (* unsigned *)
    apply andb_true_iff in Hwf as [Hw1 Hw2]. apply N.leb_le in Hw1. apply N.leb_le in Hw2.
    apply andb_true_iff in Hty as [Ht1 Ht2]. apply Z.leb_le in Ht1. apply Z.ltb_lt in Ht2.
    apply write_n_inv in H as [_ [Hlt ->]].
    exists (enc (N.to_nat (f_w f)) (Z.to_N v)). split; [reflexivity|]. intros rest pos.
    assert (Hsmall : Z.to_N v < 2 ^ f_w f).
    { destruct (N.eq_dec (f_w f) (f_tb f)) as [He|Hne].
      - rewrite He. rewrite z_pow_n in Ht2. lia.
      - apply Hlt. lia. }
    rewrite get_n_enc by assumption. cbn [bind]. rewrite Z2N.id by exact Ht1.
    rewrite enc_length, N2Nat.id. reflexivity.
  - (* signed *)
    apply andb_true_iff in Hwf as [Hw1 Hw2]. apply N.leb_le in Hw1. apply N.leb_le in Hw2.
    apply andb_true_iff in Hty as [Ht1 Ht2]. apply Z.leb_le in Ht1. apply Z.ltb_lt in Ht2.
    set (wd := f_w f) in *. set (tb := f_tb f) in *.
    assert (Hwd0 : 0 < wd) by lia.
    pose proof (pow2_split wd Hwd0) as Hsplit.
    pose proof (pow2_pos (wd - 1)) as Hhalf.
    pose proof (z_pow_n wd) as Hpz. pose proof (z_pow_n (wd - 1)) as Hpz1.
    assert (Hk : N.to_nat wd = S (N.to_nat (wd - 1))) by lia.
    unfold write_signed_n in H.
    replace (wd =? 0) with false in H by (symmetry; apply N.eqb_neq; lia).
    replace (tb <? wd) with false in H by (symmetry; apply N.ltb_ge; exact Hw1).
    destruct (wd =? tb) eqn:Eeq.
    + apply N.eqb_eq in Eeq. inversion H; subst w'. clear H.
      assert (Htz : (2 ^ (Z.of_N tb - 1) = Z.of_N (2 ^ (wd - 1)))%Z).
      { rewrite <- Eeq. rewrite N2Z.inj_pow. f_equal. lia. }
      set (raw := Z.to_N (v mod 2 ^ Z.of_N wd)).
      assert (Hraw : raw < 2 ^ wd).
      { unfold raw. rewrite Hpz. pose proof (Z.mod_pos_bound v (Z.of_N (2 ^ wd)) ltac:(lia)). lia. }
      exists (enc (N.to_nat wd) raw). split; [reflexivity|]. intros rest pos.
      rewrite get_n_enc by (fold wd tb; lia || assumption). cbn [bind].
      rewrite enc_length, N2Nat.id. f_equal. f_equal.
      unfold twos. replace (wd =? 0) with false by (symmetry; apply N.eqb_neq; lia).
      unfold raw. rewrite Hpz in *.
      destruct (Z_lt_dec v 0) as [Hneg|Hpos].
      * assert (Hm : (v mod Z.of_N (2 ^ wd) = v + Z.of_N (2 ^ wd))%Z).
        { symmetry. apply (Z.mod_unique _ _ (-1)); lia. }
        rewrite Hm.
        replace (Z.to_N (v + Z.of_N (2 ^ wd)) <? 2 ^ (wd - 1)) with false by (symmetry; apply N.ltb_ge; lia).
        lia.
      * rewrite Z.mod_small by lia.
        replace (Z.to_N v <? 2 ^ (wd - 1)) with true by (symmetry; apply N.ltb_lt; lia). lia.
    + apply N.eqb_neq in Eeq.
      destruct (v <? 0)%Z eqn:Eneg.
      * apply Z.ltb_lt in Eneg.
        destruct (v + 2 ^ Z.of_N (wd - 1) <? 0)%Z eqn:Elow; [discriminate|]. apply Z.ltb_ge in Elow.
        cbn [write_bit bind] in H. apply write_n_inv in H as [_ [Hlt ->]].
        set (u := Z.to_N (v + 2 ^ Z.of_N (wd - 1))) in *.
        assert (Hu : u < 2 ^ (wd - 1)) by (apply Hlt; lia).
        exists ([true] ++ enc (N.to_nat (wd - 1)) u). split; [rewrite wput_app; reflexivity|].
        intros rest pos.
        assert (Hl : List.length ([true] ++ enc (N.to_nat (wd - 1)) u) = N.to_nat wd).
        { cbn [app List.length]. rewrite enc_length. lia. }
        rewrite get_n_bits by (fold wd tb; lia || exact Hl). cbn [bind]. rewrite Hl, N2Nat.id.
        f_equal. f_equal. cbn [app]. rewrite val_cons, enc_length, N2Nat.id.
        rewrite enc_val_small by (rewrite N2Nat.id; exact Hu). cbn [b2n].
        unfold twos. replace (wd =? 0) with false by (symmetry; apply N.eqb_neq; lia).
        replace (1 * 2 ^ (wd - 1) + u <? 2 ^ (wd - 1)) with false by (symmetry; apply N.ltb_ge; lia).
        unfold u. lia.
      * apply Z.ltb_ge in Eneg.
        cbn [write_bit bind] in H. apply write_n_inv in H as [_ [Hlt ->]].
        assert (Hu : Z.to_N v < 2 ^ (wd - 1)) by (apply Hlt; lia).
        exists ([false] ++ enc (N.to_nat (wd - 1)) (Z.to_N v)). split; [rewrite wput_app; reflexivity|].
        intros rest pos.
        assert (Hl : List.length ([false] ++ enc (N.to_nat (wd - 1)) (Z.to_N v)) = N.to_nat wd).
        { cbn [app List.length]. rewrite enc_length. lia. }
        rewrite get_n_bits by (fold wd tb; lia || exact Hl). cbn [bind]. rewrite Hl, N2Nat.id.
        f_equal. f_equal. cbn [app]. rewrite val_cons, enc_length, N2Nat.id.
        rewrite enc_val_small by (rewrite N2Nat.id; exact Hu). cbn [b2n].
        unfold twos. replace (wd =? 0) with false by (symmetry; apply N.eqb_neq; lia).
        replace (0 * 2 ^ (wd - 1) + Z.to_N v <? 2 ^ (wd - 1)) with true by (symmetry; apply N.ltb_lt; lia).
        lia.
Qed.

Theorem enc_dec_fields p prog : forall len vs w w',
  forallb fld_wf prog = true -> forallb (fun f => negb (is_ue f)) prog = true ->
  all_in_type prog vs = true ->
  enc_fields p prog len vs w = Ok w' ->
  exists bs, w' = wput w bs /\
    forall rest pos, dec_fields p prog len (mkR (bs ++ rest) pos)
                     = Ok (present_vals prog len vs, mkR rest (pos + N.of_nat (List.length bs))).
Proof.
  induction prog as [|f t IH]; intros len vs w w' Hwf Hue Hty H.
  - cbn in H. inversion H; subst. exists []. split; [symmetry; apply wput_nil|]. intros rest pos.
    cbn. f_equal. f_equal. f_equal. lia.
  - destruct vs as [|v vt]; [cbn in Hty; discriminate|].
    cbn [forallb] in Hwf, Hue. apply andb_true_iff in Hwf as [Hwf1 Hwf2].
    apply andb_true_iff in Hue as [Hue1 Hue2]. apply negb_true_iff in Hue1.
    cbn [all_in_type] in Hty. apply andb_true_iff in Hty as [Hty1 Hty2].
    cbn [enc_fields] in H. apply bind_ok_inv in H as [w1 [He1 He2]].
    destruct (enc_dec_field p f len v w w1 Hwf1 Hue1 Hty1 He1) as [b1 [-> Hd1]].
    destruct (IH len vt (wput w b1) w' Hwf2 Hue2 Hty2 He2) as [b2 [-> Hd2]].
    exists (b1 ++ b2). split; [apply wput_app|]. intros rest pos.
    cbn [dec_fields present_vals]. rewrite <- app_assoc. rewrite Hd1. cbn [bind].
    rewrite Hd2. cbn [bind]. f_equal. f_equal. f_equal. rewrite app_length. lia.
Qed.

Lemma write_implies_counts p x out :
  write_rpu_data p src_sw x = Ok out ->
  match rdm x with
  | Some d => match cmv29 d with Some c => container_valid V29 c = true | None => True end /\
              match cmv40 d with Some c => container_valid V40 c = true | None => True end
  | None => True
  end.
Proof.
  unfold write_rpu_data. destruct (rpu_valid x) eqn:Ev; [|discriminate]. intros _.
  unfold rpu_valid in Ev. apply andb_true_iff in Ev as [_ Hd].
  destruct (rdm x) as [d|]; [|exact I].
  unfold dm_valid in Hd. apply andb_true_iff in Hd as [Hd H40]. apply andb_true_iff in Hd as [_ H29].
  split; [destruct (cmv29 d); [exact H29|exact I] | destruct (cmv40 d); [exact H40|exact I]].
Qed.

Lemma write_n_no_panic tb n v w s : write_n tb n v w <> Panic s.
Proof. unfold write_n. destruct (tb <? n); [discriminate|]. destruct (_ && _); discriminate. Qed.

Lemma write_ue_panic p v w s : write_ue p v w = Panic s -> s = site_ue_write.
Proof.
  unfold write_ue. destruct (v =? 0); [discriminate|].
  destruct (v + 1 =? two64).
  - destruct p; intros H; inversion H; reflexivity.
  - intros H. exfalso. eapply write_n_no_panic. exact H.
Qed.

Lemma write_signed_n_no_panic tb n v w s : write_signed_n tb n v w <> Panic s.
Proof.
  unfold write_signed_n. destruct (n =? 0); [discriminate|]. destruct (tb <? n); [discriminate|].
  destruct (n =? tb); [discriminate|].
  destruct (v <? 0)%Z.
  - destruct (v + 2 ^ Z.of_N (n - 1) <? 0)%Z; [discriminate|]. cbn. apply write_n_no_panic.
  - cbn. apply write_n_no_panic.
Qed.

Lemma enc_fields_panic p prog : forall len vs w s, enc_fields p prog len vs w = Panic s -> s = site_ue_write.
Proof.
  induction prog as [|f t IH]; intros len vs w s H; [discriminate|].
  destruct vs as [|v vt]; [discriminate|]. cbn [enc_fields] in H.
  apply bind_panic_inv in H as [H|[w1 [_ H]]]; [|eapply IH; exact H].
  unfold enc_field in H. destruct (present f len); [|discriminate].
  destruct (f_k f).
  - exfalso. eapply write_n_no_panic; exact H.
  - exfalso. eapply write_signed_n_no_panic; exact H.
  - eapply write_ue_panic; exact H.
Qed.

Lemma write_block_panic_sites p b w s : write_block p b w = Panic s -> s = site_ue_write.
Proof.
  pose proof blocks_compatible as Hc. pose proof validate_length_sets_ok as Hl.
  pose proof source_switches_fixed as Hsw.
  assert (Hchk : g_block_len_checked_write = true).
  { unfold switches_all_fixed in Hsw. repeat (apply andb_true_iff in Hsw as [Hsw ?]). assumption. }
  unfold write_block. destruct (desc_of (blevel b)) as [d|] eqn:Ed; [|discriminate].
  apply desc_of_In in Ed as [Hin Hlv]. rewrite Hchk. intros H.
  apply bind_panic_inv in H as [H|[[] [Hk H]]]; [exfalso; eapply ensure_no_panic; exact H|].
  apply ensure_ok_inv in Hk.
  apply bind_panic_inv in H as [H|[req [_ H]]].
  - exfalso. eapply required_bits_ok; [exact Hc|exact Hl|exact Hin| |exact H].
    intros _. rewrite Hlv. exact Hk.
  - apply bind_panic_inv in H as [H|[w1 [_ H]]]; [eapply write_ue_panic; exact H|].
    apply bind_panic_inv in H as [H|[w2 [_ H]]]; [exfalso; eapply write_n_no_panic; exact H|].
    apply bind_panic_inv in H as [H|[w3 [_ H]]]; [|discriminate].
    unfold write_block_payload in H.
    apply bind_panic_inv in H as [H|[[] [_ H]]].
    + destruct (b_validates_on_write d); [exfalso; eapply ensure_no_panic; exact H|discriminate].
    + eapply enc_fields_panic; exact H.
Qed.
