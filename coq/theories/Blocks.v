(* Extension metadata blocks and the two DM containers (CM v2.9 / CM v4.0):
   models of extension_metadata/{mod.rs, cmv29.rs, cmv40.rs, blocks/mod.rs}, driven by the
   regenerated per-level tables of DVgen.Blocks_gen. *)
From Coq Require Import List NArith ZArith Lia Bool String.
From DV Require Import Outcome Bits BitIO Fields.
From DVgen Require Import Blocks_gen Switches_gen.
Import ListNotations.
Open Scope N_scope.
Local Open Scope out_scope.

(* bvals is aligned with the level's field program (b_parse); bflag is L11's reference_mode_flag *)
Record block := mkBlk { blevel : N; blen : N; bvals : list Z; bflag : bool }.

Inductive cmver := V29 | V40.

Record container := mkC { cnum : N; cblocks : list block }.

Definition desc_of (level : N) : option blockdesc :=
  find (fun d => b_level d =? level) all_block_descs.

Definition allowed (v : cmver) : list N := match v with V29 => cmv29_allowed | V40 => cmv40_allowed end.
Definition parse_levels (v : cmver) : list N := match v with V29 => cmv29_parse_levels | V40 => cmv40_parse_levels end.
Definition bail_levels (v : cmver) : list N := match v with V29 => cmv29_bail_levels | V40 => cmv40_bail_levels end.
Definition count_limits (v : cmver) := match v with V29 => cmv29_count_limits | V40 => cmv40_count_limits end.

Definition mem (x : N) (l : list N) : bool := existsb (N.eqb x) l.

(* bytes_size(): the constant of the level, or self.length for L8/L9/L10 *)
Definition bytes_size (d : blockdesc) (b : block) : N :=
  if b_var_len d then blen b
  else match b_lengths d with (by_, _) :: _ => by_ | [] => 0 end.

(* required_bits(): constant, or a match on self.length whose default arm is unreachable!() *)
Definition required_bits (d : blockdesc) (b : block) : outcome N :=
  if b_var_len d then
    match find (fun p => fst p =? blen b) (b_lengths d) with
    | Some (_, bits) => Ok bits
    | None => Panic site_block_len
    end
  else match b_lengths d with (_, bits) :: _ => Ok bits | [] => Panic site_block_len end.

Definition known_length (d : blockdesc) (len : N) : bool :=
  existsb (fun p => fst p =? len) (b_lengths d).

(* ExtMetadataBlock::validate_length: the sets come from the source (Switches_gen) *)
Definition vl_known (level len : N) : bool :=
  match find (fun p => fst p =? level) g_validate_length_sets with
  | Some (_, l) => mem len l
  | None => true
  end.

(* L11: whitepoint / reference_mode_flag split (hand-modelled idiom, shape "l11") *)
Definition l11_post (d : blockdesc) (vs : list Z) : list Z * bool :=
  match field_val (b_parse d) vs "whitepoint" with
  | Some wp => if (15 <? wp)%Z then (set_field (b_parse d) vs "whitepoint" (wp - 16)%Z, true) else (vs, false)
  | None => (vs, false)
  end.
Definition l11_pre (d : blockdesc) (vs : list Z) (flag : bool) : list Z :=
  match field_val (b_parse d) vs "whitepoint" with
  | Some wp => if flag then set_field (b_parse d) vs "whitepoint" (wp + 16)%Z else vs
  | None => vs
  end.

Definition is_l11 (d : blockdesc) : bool := String.eqb (b_shape d) "l11".

Fixpoint read_zero_bits (n : nat) (r : reader) : outcome reader :=
  match n with
  | O => Ok r
  | S k => let* '(b, r1) := get r in if b then Err else read_zero_bits k r1
  end.

Fixpoint zeros (n : nat) : list bool := match n with O => [] | S k => false :: zeros k end.

(* WithExtMetadataBlocks::parse_block + validate_and_read_remaining.
   `strict_len` is what the source does with a length outside the known set of a variable-length
   level: true = rejected with an error before use (after the repair), false = reaches
   required_bits() -> unreachable!() *)
Definition parse_block (p : profile) (v : cmver) (r : reader) : outcome (block * reader) :=
  let* '(len, r) := get_ue p r in
  let* '(level, r) := get_n 8 8 r in
  if mem level (parse_levels v) then
    match desc_of level with
    | None => Err
    | Some d =>
        let* '(vs, r) := dec_fields p (b_parse d) len r in
        let '(vs, flag) := if is_l11 d then l11_post d vs else (vs, false) in
        let b := mkBlk level (if b_var_len d then len else bytes_size d (mkBlk level len vs flag)) vs flag in
        (* validate_and_read_remaining *)
        let* _ := if g_block_len_checked_parse then ensure (vl_known level (blen b)) else Ok tt in
        let* _ := ensure (len =? bytes_size d b) in
        let* _ := ensure (mem level (allowed v)) in
        let* req := required_bits d b in
        let* r := read_zero_bits (N.to_nat (8 * bytes_size d b - req)) r in
        Ok (b, r)
    end
  else Err.   (* wrong-container level: bail!; unknown level: ensure!(false) *)

Fixpoint parse_blocks (p : profile) (v : cmver) (fuel : nat) (n : N) (r : reader)
  : outcome (list block * reader) :=
  if n =? 0 then Ok ([], r)
  else match fuel with
       | O => Err     (* unreachable: every block consumes at least 9 bits *)
       | S f =>
           let* '(b, r1) := parse_block p v r in
           let* '(bs, r2) := parse_blocks p v f (n - 1) r1 in
           Ok (b :: bs, r2)
       end.

Fixpoint align_zero (fuel : nat) (r : reader) : outcome reader :=
  if is_aligned r then Ok r
  else match fuel with
       | O => Err
       | S f => let* '(b, r1) := get r in if b then Err else align_zero f r1
       end.

(* DmData::parse::<T> *)
Definition parse_container (p : profile) (v : cmver) (r : reader) : outcome (container * reader) :=
  let* '(num, r) := get_ue p r in
  (* with_blocks_allocation(num): Vec::with_capacity sized by the field unless clamped *)
  let* _ := if negb g_blocks_alloc_clamped && (1000000 <? num) then Panic site_alloc else Ok tt in
  let* r := align_zero 8 r in
  let* '(bs, r) := parse_blocks p v (S (List.length (rbits r))) num r in
  Ok (mkC num bs, r).

(* per-block validate() *)
Definition block_valid (d : blockdesc) (b : block) : bool :=
  validate_clauses (b_parse d) (blen b) (bvals b) (b_validate d).

Definition count_level (l : N) (bs : list block) : N :=
  N.of_nat (List.length (filter (fun b => blevel b =? l) bs)).

(* CmV29DmData::validate / CmV40DmData::validate *)
Definition container_valid (v : cmver) (c : container) : bool :=
  forallb (fun b => mem (blevel b) (allowed v)) (cblocks c) &&
  forallb (fun lim => let '(l, exact, k) := lim in
                      if exact : bool then count_level l (cblocks c) =? k
                      else count_level l (cblocks c) <=? k) (count_limits v).

(* ExtMetadataBlock::write through the level's write program *)
Definition write_block_payload (p : profile) (d : blockdesc) (b : block) (w : writer) : outcome writer :=
  let* _ := if b_validates_on_write d then ensure (block_valid d b) else Ok tt in
  let vs := if is_l11 d then l11_pre d (bvals b) (bflag b) else bvals b in
  enc_fields p (b_write d) (blen b) vs w.

Definition write_block (p : profile) (b : block) (w : writer) : outcome writer :=
  match desc_of (blevel b) with
  | None => Err
  | Some d =>
      let* _ := if g_block_len_checked_write then ensure (vl_known (blevel b) (blen b)) else Ok tt in
      let* req := required_bits d b in
      let* w := write_ue p (bytes_size d b) w in
      let* w := write_n 8 8 (blevel b) w in
      let* w := write_block_payload p d b w in
      Ok (wput w (zeros (N.to_nat (8 * bytes_size d b - req))))
  end.

Fixpoint write_blocks (p : profile) (bs : list block) (w : writer) : outcome writer :=
  match bs with
  | [] => Ok w
  | b :: t => let* w1 := write_block p b w in write_blocks p t w1
  end.

(* WithExtMetadataBlocks::write *)
Definition write_container (p : profile) (c : container) (w : writer) : outcome writer :=
  let* w := write_ue p (cnum c) w in
  write_blocks p (cblocks c) (byte_align w).

(* ---------------- container operations (C12) ---------------- *)
Definition target_of (b : block) : Z :=
  match desc_of (blevel b) with
  | Some d => match b_sort_field d with
              | Some f => match field_val (b_parse d) (bvals b) f with Some v => v | None => 0%Z end
              | None => 0%Z
              end
  | None => 0%Z
  end.

Definition sort_key (b : block) : N * Z := (blevel b, target_of b).

Definition key_le (a b : N * Z) : bool :=
  (fst a <? fst b) || ((fst a =? fst b) && (snd a <=? snd b)%Z).

(* stable insertion sort by key: the same list as Vec::sort_by_key (any stable sort) *)
Fixpoint insert_sorted (x : block) (l : list block) : list block :=
  match l with
  | [] => [x]
  | y :: t => if key_le (sort_key x) (sort_key y) then x :: l else y :: insert_sorted x t
  end.
Definition sort_blocks (l : list block) : list block := fold_right insert_sorted [] l.

(* update_extension_block_info: count, then sort *)
Definition update_info (c : container) : container :=
  mkC (N.of_nat (List.length (cblocks c))) (sort_blocks (cblocks c)).
