(* RPU generation from a config (dolby_vision/src/rpu/generate.rs, src/dovi/generator.rs).
   The per-profile base RPU (header, mapping and DM presets of profiles/*.rs with the static L5/L9/
   L11/L254 blocks of an empty config) is an input of the model, taken from the implementation for
   the empty config of the same profile and CM version; the model covers everything a config adds:
   frame count, scene cuts, static blocks, block precedence, L1 clamping, source levels, and the
   shots derived from HDR10+ scene information. *)
From Coq Require Import List NArith ZArith Lia Bool String.
From DV Require Import Outcome Bits BitIO Fields Blocks Rpu Ops Editor.
From DVgen Require Import Consts_gen Blocks_gen DmData_gen PqTables_gen.
Import ListNotations.
Open Scope N_scope.
Local Open Scope out_scope.

Record gshot := mkShot { s_dur : N; s_blocks : list block; s_edits : list (N * list block) }.

Record gconfig := mkG {
  g_cm40 : bool; g_long : bool; g_length : N;
  g_min : option Z; g_max : option Z;
  g_l1cm : option bool;                      (* l1_avg_pq_cm_version: Some true = V40 *)
  g_l5 : block; g_l6 : option block;
  g_defaults : list block;
  g_shots : list gshot }.

(* ExtMetadataBlockLevel1::clamp_values_int *)
Definition zclamp (v lo hi : Z) : Z := Z.max lo (Z.min v hi).
Definition clamp_l1 (v40 : bool) (b : block) : block :=
  if blevel b =? 1 then
    match bvals b with
    | [mn; mx; av] =>
        let mn' := zclamp mn 0 (Z.of_N l1_min_pq_max) in
        let mx' := zclamp mx (Z.of_N l1_max_pq_min) (Z.of_N l1_max_pq_max) in
        let av' := zclamp av (Z.of_N (if v40 then l1_avg_pq_min_cmv40 else l1_avg_pq_min)) (mx' - 1) in
        mkBlk 1 (blen b) [mn'; mx'; av'] (bflag b)
    | _ => b
    end
  else b.

Definition l1_from_stats (v40 : bool) (mn mx av : Z) : block := clamp_l1 v40 (mkBlk 1 5 [mn; mx; av] false).

(* GenerateConfig::fixup_l1 *)
Definition fixup_l1 (c : gconfig) : gconfig :=
  let v40 := match g_l1cm c with Some v => v | None => g_cm40 c end in
  let f := map (clamp_l1 v40) in
  mkG (g_cm40 c) (g_long c) (g_length c) (g_min c) (g_max c) (g_l1cm c) (g_l5 c) (g_l6 c)
      (f (g_defaults c))
      (map (fun s => mkShot (s_dur s) (f (s_blocks s)) (map (fun e => (fst e, f (snd e))) (s_edits s))) (g_shots c)).

Definition sum_dur (l : list gshot) : N := fold_left (fun a s => a + s_dur s) l 0.

Definition is_nil {A} (l : list A) : bool := match l with [] => true | _ => false end.

(* Generator::execute, JSON config without HDR10+ / madVR source *)
Definition cli_prepare (c : gconfig) (o_long : option bool) : outcome gconfig :=
  let l1cm := Some (match g_l1cm c with Some v => v | None => g_cm40 c end) in
  let len := if (g_length c =? 0) && negb (is_nil (g_shots c)) then sum_dur (g_shots c) else g_length c in
  let* _ := ensure ((0 <? len) || negb (is_nil (g_shots c))) in
  let shots := if is_nil (g_shots c) then [mkShot len [] []] else g_shots c in
  let long := match o_long with Some b => b | None => g_long c end in
  Ok (fixup_l1 (mkG (g_cm40 c) long len (g_min c) (g_max c) l1cm (g_l5 c) (g_l6 c) (g_defaults c) shots)).

(* VdrDmData::set_static_metadata + change_source_levels on the base DM data *)
Definition static_dm (c : gconfig) (d : dmdata) : outcome dmdata :=
  let* d := dm_replace_block d (g_l5 c) in
  let* d := match g_l6 c with Some b => dm_replace_block d b | None => Ok d end in
  let* d := dm_replace_blocks d (level_blocks d 9) in       (* default L9 / L11: already in the base *)
  let* d := dm_replace_blocks d (level_blocks d 11) in
  let* d := dm_replace_blocks d (filter (fun b => negb ((blevel b =? 5) || (blevel b =? 6))) (g_defaults c)) in
  Ok (change_source_levels (g_min c) (g_max c) d).

Fixpoint find_edit (edits : list (N * list block)) (i : N) : option (list block) :=
  match edits with
  | [] => None
  | (o, bs) :: t => if o =? i then Some bs else find_edit t i
  end.

Definition frame_dm (long : bool) (s : gshot) (i : N) (d : dmdata) : outcome dmdata :=
  let d := if (i =? 0) || long then set_scene_cut true d else d in
  let* d := dm_replace_blocks d (s_blocks s) in
  match find_edit (s_edits s) i with
  | Some bs => dm_replace_blocks d bs
  | None => Ok d
  end.

Fixpoint shot_frames (long : bool) (s : gshot) (fuel : nat) (i : N) (x : rpu) : outcome (list rpu) :=
  match fuel with
  | O => Ok []
  | S f =>
      let* fr := match rdm x with
                 | Some d => let* d' := frame_dm long s i d in Ok (with_dm x (Some d') true)
                 | None => Ok x
                 end in
      let* rest := shot_frames long s f (i + 1) x in
      Ok (fr :: rest)
  end.

Fixpoint all_frames (long : bool) (shots : list gshot) (x : rpu) : outcome (list rpu) :=
  match shots with
  | [] => Ok []
  | s :: t => let* a := shot_frames long s (N.to_nat (s_dur s)) 0 x in
              let* b := all_frames long t x in Ok (a ++ b)
  end.

(* GenerateConfig::generate_rpu_list on the base RPU of the profile *)
Definition generate_list (c : gconfig) (base : rpu) : outcome (list rpu) :=
  let* x := match rdm base with
            | Some d => let* d' := static_dm c d in Ok (with_dm base (Some d') true)
            | None => Ok base
            end in
  let* _ := ensure (g_length c =? sum_dur (g_shots c)) in
  all_frames (g_long c) (g_shots c) x.

Fixpoint encode_all (p : profile) (l : list rpu) : outcome (list (list N)) :=
  match l with
  | [] => Ok []
  | x :: t => let* e := write_hevc_unspec62_nalu p src_sw x in let* r := encode_all p t in Ok (e :: r)
  end.

(* dovi_tool generate -j config.json *)
Definition generate (p : profile) (c : gconfig) (o_long : option bool) (base : rpu) : outcome (list (list N)) :=
  let* c' := cli_prepare c o_long in
  let* l := generate_list c' base in
  encode_all p l.

(* ---------------- shots from HDR10+ scene information ---------------- *)
(* round(nits_to_pq(L) * 4095) for an integer L in 0..10000: the table certified in C19 *)
Fixpoint zlookup (k : Z) (l : list (Z * Z)) : option Z :=
  match l with [] => None | (a, b) :: t => if (a =? k)%Z then Some b else zlookup k t end.
Definition nits_code (l : Z) : outcome Z := match zlookup l nits_table with Some c => Ok c | None => Err end.

(* VideoShot::copy_metadata_from_shot(other, Some(&[1])) *)
Definition not_l1 (b : block) : bool := negb (blevel b =? 1).
Definition copy_from_shot (s other : gshot) : gshot :=
  let blocks := s_blocks s ++ filter not_l1 (s_blocks other) in
  let merged := map (fun e => match find_edit (s_edits other) (fst e) with
                              | Some bs => (fst e, snd e ++ filter not_l1 bs)
                              | None => e end) (s_edits s) in
  let existing := map fst (s_edits s) in
  let added := map (fun e => (fst e, filter not_l1 (snd e)))
                   (filter (fun e => negb (existsb (N.eqb (fst e)) existing)) (s_edits other)) in
  mkShot (s_dur s) blocks (merged ++ added).

(* parse_hdr10plus_for_l1: `firsts` = (rounded max nits, rounded avg nits) of the frames whose index
   is a scene first frame (after offsetting), in frame order; `lengths` = SceneFrameNumbers *)
Fixpoint hdr_shots (v40 : bool) (firsts : list (Z * Z)) (lengths : list N) (cfg_shots : list gshot) (k : nat)
  : outcome (list gshot) :=
  match firsts with
  | [] => Ok []
  | (mx, av) :: t =>
      match nth_error lengths k with
      | None => Panic site_arith                     (* scene_frame_lengths[current_shot_id] *)
      | Some dur =>
          let* mxc := nits_code mx in
          let* avc := nits_code av in
          let s := mkShot dur [l1_from_stats v40 0 mxc avc] [] in
          let s := match nth_error cfg_shots k with Some o => copy_from_shot s o | None => s end in
          let* r := hdr_shots v40 t lengths cfg_shots (S k) in
          Ok (s :: r)
      end
  end.

Definition generate_hdr10plus (p : profile) (c : gconfig) (o_long : option bool) (base : rpu)
           (frame_count : N) (firsts : list (Z * Z)) (lengths : list N) : outcome (list (list N)) :=
  let v40 := match g_l1cm c with Some v => v | None => g_cm40 c end in
  let* shots := hdr_shots v40 firsts lengths (g_shots c) 0 in
  let c1 := mkG (g_cm40 c) (g_long c) frame_count (g_min c) (g_max c) (Some v40) (g_l5 c) (g_l6 c) (g_defaults c) shots in
  (* back in execute: length > 0 or shots; default single shot; overrides; fixup_l1 *)
  let* _ := ensure ((0 <? frame_count) || negb (is_nil shots)) in
  let shots' := if is_nil shots then [mkShot frame_count [] []] else shots in
  let long := match o_long with Some b => b | None => g_long c end in
  let c2 := fixup_l1 (mkG (g_cm40 c) long frame_count (g_min c) (g_max c) (Some v40) (g_l5 c) (g_l6 c) (g_defaults c) shots') in
  let* l := generate_list c2 base in
  encode_all p l.

(* ---------------- shots from a madVR measurement file ---------------- *)
(* generate_metadata_from_madvr: per scene its length, round(max_pq * 4095), round(avg_pq * 4095) as the
   madvr_parse crate derives them, and - with --use-custom-targets on a file with flags = 3 - the codes
   round(target_pq * 4095) of its frames (else []); L1 = (0, max, avg) per shot, (0, target, avg) per frame *)
Fixpoint frame_edits_from (v40 : bool) (av : Z) (targets : list Z) (i : N) : list (N * list block) :=
  match targets with
  | [] => []
  | tg :: t => (i, [l1_from_stats v40 0 tg av]) :: frame_edits_from v40 av t (i + 1)
  end.

Fixpoint madvr_shots (v40 : bool) (scenes : list (N * (Z * Z) * list Z)) (cfg_shots : list gshot) (k : nat) : list gshot :=
  match scenes with
  | [] => []
  | (dur, (mx, av), targets) :: t =>
      let s := mkShot dur [l1_from_stats v40 0 mx av] (frame_edits_from v40 av targets 0) in
      let s := match nth_error cfg_shots k with Some o => copy_from_shot s o | None => s end in
      s :: madvr_shots v40 t cfg_shots (S k)
  end.

(* MaxCLL / MaxFALL of the measurement header fill the config's L6 where it has 0 (u32 -> u16 truncation) *)
Definition madvr_l6 (l6 : option block) (maxcll maxfall : Z) : option block :=
  match l6 with
  | Some b =>
      match bvals b with
      | [mx; mn; cll; fall] =>
          Some (mkBlk (blevel b) (blen b)
                      [mx; mn; (if (cll =? 0)%Z then (maxcll mod 65536)%Z else cll);
                       (if (fall =? 0)%Z then (maxfall mod 65536)%Z else fall)] (bflag b))
      | _ => Some b
      end
  | None => None
  end.

Definition generate_madvr (p : profile) (c : gconfig) (o_long : option bool) (base : rpu)
           (frame_count : N) (scenes : list (N * (Z * Z) * list Z)) (maxcll maxfall : Z) : outcome (list (list N)) :=
  let v40 := match g_l1cm c with Some v => v | None => g_cm40 c end in
  let shots := madvr_shots v40 scenes (g_shots c) 0 in
  let l6 := madvr_l6 (g_l6 c) maxcll maxfall in
  let* _ := ensure ((0 <? frame_count) || negb (is_nil shots)) in
  let shots' := if is_nil shots then [mkShot frame_count [] []] else shots in
  let long := match o_long with Some b => b | None => g_long c end in
  let c2 := fixup_l1 (mkG (g_cm40 c) long frame_count (g_min c) (g_max c) (Some v40) (g_l5 c) l6 (g_defaults c) shots') in
  let* l := generate_list c2 base in
  encode_all p l.
