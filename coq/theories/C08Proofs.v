From Coq Require Import List NArith ZArith Lia Bool String.
From DV Require Import Outcome Bits BitIO Av1 Fields Blocks Rpu Tables FieldsProofs.
From DVgen Require Import Consts_gen Blocks_gen DmData_gen Switches_gen.
Import ListNotations.
Open Scope N_scope.

Lemma get_n_no_panic tb n r s : get_n tb n r <> Panic s.
Proof. unfold get_n. destruct (n <=? tb); [|discriminate]. destruct (take _ _) as [[h t]|]; discriminate. Qed.

Lemma get_no_panic r s : get r <> Panic s.
Proof. unfold get. destruct (rbits r); discriminate. Qed.

Lemma get_ue_panic p r s : get_ue p r = Panic s -> s = site_ue_shift.
Proof.
  unfold get_ue. destruct (read_unary1 (rbits r) 0) as [[lz t]|]; [|discriminate].
  destruct (lz =? 0); [discriminate|].
  destruct (get_n 64 lz _) as [[v r2]| |s'] eqn:E; cbn [bind]; try discriminate.
  - destruct (lz =? 64); [|discriminate]. destruct p; [|discriminate]. intros H. inversion H. reflexivity.
  - exfalso. eapply get_n_no_panic. exact E.
Qed.

Lemma bind_panic_inv {A B} (x : outcome A) (f : A -> outcome B) s :
  bind x f = Panic s -> x = Panic s \/ exists a, x = Ok a /\ f a = Panic s.
Proof. destruct x; cbn; intros H; try discriminate; [right; eauto | left; inversion H; reflexivity]. Qed.

Lemma dec_field_panic p f len r s : dec_field p f len r = Panic s -> s = site_ue_shift.
Proof.
  unfold dec_field. destruct (present f len); [|discriminate].
  destruct (f_k f).
  - destruct (get_n _ _ _) as [[v r']| |s'] eqn:E; cbn; try discriminate. intros _. exfalso. eapply get_n_no_panic; exact E.
  - destruct (get_n _ _ _) as [[v r']| |s'] eqn:E; cbn; try discriminate. intros _. exfalso. eapply get_n_no_panic; exact E.
  - destruct (get_ue p r) as [[v r']| |s'] eqn:E; cbn; try discriminate. intros H. inversion H; subst. eapply get_ue_panic; exact E.
Qed.

Lemma dec_fields_panic p prog : forall len r s, dec_fields p prog len r = Panic s -> s = site_ue_shift.
Proof.
  induction prog as [|f t IH]; intros len r s H; [discriminate|].
  cbn [dec_fields] in H. apply bind_panic_inv in H as [H|[[v r1] [_ H]]].
  - eapply dec_field_panic; exact H.
  - apply bind_panic_inv in H as [H|[[vs r2] [_ H]]]; [eapply IH; exact H | discriminate].
Qed.

Lemma read_zero_bits_no_panic n : forall r s, read_zero_bits n r <> Panic s.
Proof.
  induction n as [|n IH]; intros r s; cbn; [discriminate|].
  destruct (get r) as [[b r1]| |s'] eqn:E; cbn; try discriminate.
  - destruct b; [discriminate|apply IH].
  - exfalso. eapply get_no_panic; exact E.
Qed.

Lemma ensure_no_panic b s : ensure b <> Panic s.
Proof. destruct b; discriminate. Qed.

(* with the length check in place (regenerated switch) required_bits cannot reach unreachable!() *)
Lemma required_bits_ok d b s :
  forallb desc_compatible all_block_descs = true -> length_sets_ok = true ->
  In d all_block_descs ->
  (b_var_len d = true -> vl_known (b_level d) (blen b) = true) ->
  required_bits d b <> Panic s.
Proof.
  intros Hc Hl Hin Hk. unfold required_bits.
  rewrite forallb_forall in Hc. specialize (Hc d Hin).
  destruct (b_var_len d) eqn:Ev.
  - specialize (Hk eq_refl). unfold length_sets_ok in Hl. rewrite forallb_forall in Hl.
    specialize (Hl d Hin). rewrite Ev in Hl. cbn [negb orb] in Hl.
    unfold vl_known in Hk.
    destruct (find (fun p => fst p =? b_level d) g_validate_length_sets) as [[lv l]|] eqn:Ef; [|discriminate].
    apply andb_true_iff in Hl as [Hl1 _]. rewrite forallb_forall in Hl1.
    unfold mem in Hk. apply existsb_exists in Hk as [x [Hx1 Hx2]]. apply N.eqb_eq in Hx2. subst x.
    specialize (Hl1 _ Hx1). unfold known_length in Hl1. apply existsb_exists in Hl1 as [[by_ bits] [Hy1 Hy2]].
    cbn [fst] in Hy2.
    destruct (find (fun p => fst p =? blen b) (b_lengths d)) as [[a c]|] eqn:Eg; [discriminate|].
    exfalso. eapply find_none in Eg; [|exact Hy1]. cbn [fst] in Eg. congruence.
  - unfold desc_compatible in Hc. repeat (apply andb_true_iff in Hc as [Hc ?]).
    destruct (b_lengths d) as [|[a c] t]; [discriminate|discriminate].
Qed.

Lemma desc_of_In level d : desc_of level = Some d -> In d all_block_descs /\ b_level d = level.
Proof.
  unfold desc_of. intros H. apply find_some in H as [H1 H2]. apply N.eqb_eq in H2. auto.
Qed.

Lemma parse_block_panic_sites p v r s : parse_block p v r = Panic s -> s = site_ue_shift.
Proof.
  pose proof blocks_compatible as Hc. pose proof validate_length_sets_ok as Hl.
  pose proof source_switches_fixed as Hsw.
  assert (Hchk : g_block_len_checked_parse = true).
  { unfold switches_all_fixed in Hsw. repeat (apply andb_true_iff in Hsw as [Hsw ?]). assumption. }
  unfold parse_block. intros H.
  apply bind_panic_inv in H as [H|[[len r1] [_ H]]]; [eapply get_ue_panic; exact H|].
  apply bind_panic_inv in H as [H|[[level r2] [_ H]]]; [exfalso; eapply get_n_no_panic; exact H|].
  destruct (mem level (parse_levels v)); [|discriminate].
  destruct (desc_of level) as [d|] eqn:Ed; [|discriminate].
  apply desc_of_In in Ed as [Hin Hlv].
  apply bind_panic_inv in H as [H|[[vs r3] [_ H]]]; [eapply dec_fields_panic; exact H|].
  destruct (if is_l11 d then l11_post d vs else (vs, false)) as [vs' flag].
  rewrite Hchk in H.
  apply bind_panic_inv in H as [H|[[] [Hk H]]]; [exfalso; eapply ensure_no_panic; exact H|].
  apply ensure_ok_inv in Hk.
  apply bind_panic_inv in H as [H|[[] [_ H]]]; [exfalso; eapply ensure_no_panic; exact H|].
  apply bind_panic_inv in H as [H|[[] [_ H]]]; [exfalso; eapply ensure_no_panic; exact H|].
  apply bind_panic_inv in H as [H|[req [_ H]]].
  - exfalso. eapply required_bits_ok; [exact Hc | exact Hl | exact Hin | | exact H].
    intros Hv. cbn [blen]. rewrite Hv. rewrite Hlv. rewrite Hv in Hk. cbn [blen] in Hk. exact Hk.
  - apply bind_panic_inv in H as [H|[r4 [_ H]]]; [exfalso; eapply read_zero_bits_no_panic; exact H|discriminate].
Qed.

Lemma pvb_no_panic fuel : forall n value r s, parse_variable_bits_loop fuel n value r <> Panic s.
Proof.
  induction fuel as [|f IH]; intros n value r s; cbn [parse_variable_bits_loop]; [discriminate|].
  destruct (get_n 32 n r) as [[tmp r1]| |s'] eqn:E; cbn [bind]; try discriminate.
  - destruct (two32 <=? value + tmp); [discriminate|].
    destruct (get r1) as [[more r2]| |s''] eqn:E2; cbn [bind]; try discriminate.
    + destruct (negb more); [discriminate|apply IH].
    + intros _. eapply get_no_panic; exact E2.
  - intros _. eapply get_n_no_panic; exact E.
Qed.

Lemma get_n_consumes tb n r v r' :
  get_n tb n r = Ok (v, r') -> (List.length (rbits r') + N.to_nat n = List.length (rbits r))%nat.
Proof.
  intros H. apply get_n_inv in H as [_ [h [Hr [Hl _]]]]. rewrite Hr, app_length. lia.
Qed.
