From Coq Require Import List NArith ZArith Lia Bool String.
From DV Require Import Outcome Bits BitIO Fields Blocks Rpu Tables FieldsProofs Av1Proofs.
From DVgen Require Import Blocks_gen.
Import ListNotations.
Open Scope N_scope.

Lemma get_n_bits tb n bits rest pos :
  n <= tb -> List.length bits = N.to_nat n ->
  get_n tb n (mkR (bits ++ rest) pos) = Ok (val bits, mkR rest (pos + n)).
Proof.
  intros Hn Hl. unfold get_n. replace (n <=? tb) with true by (symmetry; apply N.leb_le; exact Hn).
  cbn [rbits rpos]. rewrite <- Hl. rewrite take_app. reflexivity.
Qed.

Lemma dec_field_unsigned p f len bits rest pos :
  present f len = true -> f_k f = FU -> f_w f <= f_tb f -> List.length bits = N.to_nat (f_w f) ->
  dec_field p f len (mkR (bits ++ rest) pos) = Ok (Z.of_N (val bits), mkR rest (pos + f_w f)).
Proof.
  intros Hp Hk Hw Hl. unfold dec_field. rewrite Hp, Hk. rewrite get_n_bits by assumption. reflexivity.
Qed.

Lemma twos_range w raw : 1 <= w -> raw < 2 ^ w ->
  (- 2 ^ (Z.of_N w - 1) <= twos w raw < 2 ^ (Z.of_N w - 1))%Z /\
  ((twos w raw) mod 2 ^ Z.of_N w = Z.of_N raw)%Z.
Proof.
  intros Hw Hr. unfold twos. replace (w =? 0) with false by (symmetry; apply N.eqb_neq; lia).
  assert (Hs : 2 ^ w = 2 * 2 ^ (w - 1)) by (apply pow2_split; lia).
  assert (Hz1 : (2 ^ (Z.of_N w - 1) = Z.of_N (2 ^ (w - 1)))%Z).
  { rewrite N2Z.inj_pow. f_equal. lia. }
  assert (Hz : (2 ^ Z.of_N w = Z.of_N (2 ^ w))%Z) by (rewrite N2Z.inj_pow; reflexivity).
  assert (Hpos : 0 < 2 ^ (w - 1)) by (apply N.neq_0_lt_0; apply N.pow_nonzero; lia).
  destruct (raw <? 2 ^ (w - 1)) eqn:E.
  - apply N.ltb_lt in E. split; [lia|]. rewrite Hz. apply Z.mod_small. lia.
  - apply N.ltb_ge in E. split; [lia|]. rewrite Hz.
    replace (Z.of_N raw - Z.of_N (2 ^ w))%Z with (Z.of_N raw + (-1) * Z.of_N (2 ^ w))%Z by lia.
    rewrite Z.mod_add by lia. apply Z.mod_small. lia.
Qed.

Lemma dec_field_signed p f len bits rest pos :
  present f len = true -> f_k f = FS -> 1 <= f_w f -> f_w f <= f_tb f -> List.length bits = N.to_nat (f_w f) ->
  dec_field p f len (mkR (bits ++ rest) pos) = Ok (twos (f_w f) (val bits), mkR rest (pos + f_w f)) /\
  (- 2 ^ (Z.of_N (f_w f) - 1) <= twos (f_w f) (val bits) < 2 ^ (Z.of_N (f_w f) - 1))%Z /\
  ((twos (f_w f) (val bits)) mod 2 ^ Z.of_N (f_w f) = Z.of_N (val bits))%Z.
Proof.
  intros Hp Hk H1 Hw Hl. split.
  - unfold dec_field. rewrite Hp, Hk. rewrite get_n_bits by assumption. reflexivity.
  - apply twos_range; [exact H1|]. pose proof (val_bound bits) as Hb. rewrite Hl, N2Nat.id in Hb. exact Hb.
Qed.

(* documented classification (docs/profiles.md): vdr_rpu_profile 0 + full range = 5;
   vdr_rpu_profile 1: EL present (el_spatial_resampling && !disable_residual) -> 7 when the VDR
   bit depth is 12, else 4; no EL -> 8; anything else is not a known profile (0) *)
Definition classify_profile (vp : N) (full el_spatial disable : bool) (vdr_bd8 : N) : N :=
  match vp with
  | 0 => if full then 5 else 0
  | 1 => if el_spatial && negb disable then (if vdr_bd8 =? 4 then 7 else 4) else 8
  | _ => 0
  end.

Lemma profile_rules h :
  get_dovi_profile h = classify_profile (vdr_rpu_profile h) (bl_video_full_range_flag h)
                         (el_spatial_resampling_filter_flag h) (disable_residual_flag h)
                         (vdr_bit_depth_minus8 h).
Proof.
  unfold get_dovi_profile, classify_profile.
  destruct (vdr_rpu_profile h) as [|[q|q|]]; try reflexivity.
Qed.

Definition el_split_expr (v : N) : N :=
  let el := N.land v 255 in let ext := N.land (N.shiftr v 8) 255 in
  N.lor (N.shiftl (N.lor (N.land (N.shiftl (N.shiftr ext 5) 5) 255) (N.land ext 31)) 8) el.

(* finite sweep over all 16-bit values (256 x 256), lifted with forallb_forall *)
Lemma el_split_sweep :
  forallb (fun hi => forallb (fun lo => el_split_expr (N.of_nat hi * 256 + N.of_nat lo) =? N.of_nat hi * 256 + N.of_nat lo)
                             (seq 0 256)) (seq 0 256) = true.
Proof. vm_compute. reflexivity. Qed.

Lemma el_split_inverse v : v < 65536 ->
  let el := N.land v 255 in let ext := N.land (N.shiftr v 8) 255 in
  N.lor (N.shiftl (N.lor (N.land (N.shiftl (N.shiftr ext 5) 5) 255) (N.land ext 31)) 8) el = v.
Proof.
  intros Hv. pose proof el_split_sweep as H. rewrite forallb_forall in H.
  assert (Hhi : v / 256 < 256) by (apply N.div_lt_upper_bound; lia).
  assert (Hlo : v mod 256 < 256) by (apply N.mod_lt; lia).
  assert (Hd : v / 256 * 256 + v mod 256 = v).
  { pose proof (N.div_mod v 256 ltac:(lia)) as Hdm. rewrite N.mul_comm. symmetry. exact Hdm. }
  remember (v / 256) as hi eqn:Ehi. remember (v mod 256) as lo eqn:Elo.
  assert (Hin1 : In (N.to_nat hi) (seq 0 256)) by (apply in_seq; lia).
  assert (Hin2 : In (N.to_nat lo) (seq 0 256)) by (apply in_seq; lia).
  specialize (H (N.to_nat hi) Hin1). rewrite forallb_forall in H.
  specialize (H (N.to_nat lo) Hin2).
  rewrite !N2Nat.id in H. apply N.eqb_eq in H. rewrite Hd in H. exact H.
Qed.
