(* C01: the display-management payload and the whole RPU, read then written. *)
From Coq Require Import List NArith ZArith Lia Bool String.
From DV Require Import Outcome Bits BitIO Escape Fields Blocks Crc32 Rpu Tables FieldsProofs HeaderRT MappingRT.
From DVgen Require Import Consts_gen Blocks_gen DmData_gen Switches_gen.
Import ListNotations.
Open Scope N_scope.
Local Open Scope out_scope.
Require Import ZifyBool ZifyN.
Ltac Zify.zify_post_hook ::= Z.div_mod_to_equations.

(* "if the writer, started at a bit position congruent to the reader's, returns at all, it has
   appended exactly bs" - the form in which validation failures of the writer need no hypothesis *)
Definition wspec (r : reader) (bs : list bool) (W : writer -> outcome writer) : Prop :=
  forall w w', wpos w mod 8 = rpos r mod 8 -> W w = Ok w' -> w' = wput w bs.

Lemma wspec_strong r bs W : (forall w, W w = Ok (wput w bs)) -> wspec r bs W.
Proof. intros H w w' _ Hw. rewrite H in Hw. inversion Hw. reflexivity. Qed.

Lemma wspec_ext r bs W W' : (forall w, W w = W' w) -> wspec r bs W -> wspec r bs W'.
Proof. intros He H w w' Hp Hw. apply H; [exact Hp|]. rewrite He. exact Hw. Qed.

Lemma wspec_bind r r1 b1 b2 W1 W2 :
  consumed r r1 b1 -> wspec r b1 W1 -> wspec r1 b2 W2 -> wspec r (b1 ++ b2) (fun w => let* w1 := W1 w in W2 w1).
Proof.
  intros [_ Hpos] H1 H2 w w' Hp Hw.
  destruct (W1 w) as [w1| |s] eqn:E1; cbn [bind] in Hw; try discriminate.
  pose proof (H1 w w1 Hp E1) as ->.
  rewrite <- wput_app. apply H2; [|exact Hw].
  rewrite wpos_wput, Hpos. rewrite (N.add_mod (wpos w)), (N.add_mod (rpos r)) by lia. rewrite Hp. reflexivity.
Qed.

Lemma wspec_nil r : wspec r [] (fun w => Ok w).
Proof. intros w w' _ H. inversion H. rewrite wput_nil. reflexivity. Qed.

(* ---------------------------------------------------------------- tables *)
Lemma fk_eqb_eq a b : fk_eqb a b = true -> a = b.
Proof. destruct a, b; cbn; congruence. Qed.

Lemma fld_eqb_eq a b : fld_eqb a b = true -> a = b.
Proof.
  unfold fld_eqb. intros H. repeat (apply andb_prop in H; destruct H as [H ?]).
  destruct a, b; cbn in *. apply String.eqb_eq in H. apply N.eqb_eq in H4, H3, H1. apply fk_eqb_eq in H2. apply Z.eqb_eq in H0.
  subst. reflexivity.
Qed.

Lemma prog_eqb_eq a : forall b, prog_eqb a b = true -> a = b.
Proof.
  induction a as [|x a IH]; intros [|y b] H; cbn in H; try discriminate; [reflexivity|].
  apply andb_prop in H. destruct H as [H1 H2]. apply fld_eqb_eq in H1. subst. f_equal. auto.
Qed.

Lemma desc_of_in level d : desc_of level = Some d -> In d all_block_descs /\ b_level d = level.
Proof.
  unfold desc_of. intros H. apply find_some in H. destruct H as [H1 H2]. apply N.eqb_eq in H2. auto.
Qed.

Lemma desc_compat d : In d all_block_descs -> desc_compatible d = true.
Proof. intros H. pose proof blocks_compatible as Ha. rewrite forallb_forall in Ha. auto. Qed.

(* ---------------------------------------------------------------- zero padding *)
Lemma zeros_repeat n : zeros n = repeat false n.
Proof. induction n; cbn; congruence. Qed.

Lemma read_zero_bits_rt n : forall r r', read_zero_bits n r = Ok r' -> consumed r r' (zeros n).
Proof.
  induction n as [|n IH]; intros r r' H; cbn [read_zero_bits] in H.
  - inversion H; subst. apply consumed_nil.
  - destruct (get r) as [[b r1]| |s] eqn:E; cbn [bind] in H; try discriminate.
    destruct b; [discriminate|]. apply get_rt in E. apply IH in H.
    change (zeros (S n)) with ([false] ++ zeros n). eapply consumed_trans; eassumption.
Qed.

Lemma align_zero_rt fuel : forall r r', align_zero fuel r = Ok r' ->
  consumed r r' (zeros (N.to_nat (pad_len (rpos r)))) /\ rpos r' mod 8 = 0.
Proof.
  induction fuel as [|f IH]; intros r r' H; cbn [align_zero] in H; unfold is_aligned in H.
  - destruct (rpos r mod 8 =? 0) eqn:E; [|discriminate]. inversion H; subst. apply N.eqb_eq in E.
    split; [|exact E]. unfold pad_len. rewrite E. cbn. apply consumed_nil.
  - destruct (rpos r mod 8 =? 0) eqn:E.
    + inversion H; subst. apply N.eqb_eq in E. split; [|exact E]. unfold pad_len. rewrite E. cbn. apply consumed_nil.
    + apply N.eqb_neq in E.
      destruct (get r) as [[b r1]| |s] eqn:Eg; cbn [bind] in H; try discriminate.
      destruct b; [discriminate|]. apply get_rt in Eg. destruct (IH _ _ H) as [Hc Ha]. split; [|exact Ha].
      assert (Hp : rpos r1 = rpos r + 1) by (destruct Eg as [_ Hq]; cbn in Hq; lia).
      assert (Hpl : N.to_nat (pad_len (rpos r)) = S (N.to_nat (pad_len (rpos r1)))).
      { unfold pad_len. rewrite Hp. lia. }
      rewrite Hpl. change (zeros (S ?n)) with ([false] ++ zeros n). eapply consumed_trans; eassumption.
Qed.

(* ---------------------------------------------------------------- one extension block *)
Lemma enc_fields_profile prog : forallb (fun f => negb (is_ue f)) prog = true ->
  forall p1 p2 len vs w, enc_fields p1 prog len vs w = enc_fields p2 prog len vs w.
Proof.
  induction prog as [|f t IH]; intros H p1 p2 len vs w; [reflexivity|].
  cbn [forallb] in H. apply andb_prop in H. destruct H as [Hf Ht].
  destruct vs as [|v vt]; [reflexivity|]. cbn [enc_fields].
  assert (He : enc_field p1 f len v w = enc_field p2 f len v w).
  { unfold enc_field. destruct (present f len); [|reflexivity]. unfold is_ue in Hf. destruct (f_k f); try reflexivity. discriminate. }
  rewrite He. destruct (enc_field p2 f len v w); cbn [bind]; auto.
Qed.

Lemma set_nth_set_nth i v u l : set_nth i v (set_nth i u l) = set_nth i v l.
Proof. revert i; induction l as [|x t IH]; intros [|i]; cbn; auto. f_equal. apply IH. Qed.

Lemma set_nth_same i v l : nth_error l i = Some v -> set_nth i v l = l.
Proof. revert i; induction l as [|x t IH]; intros [|i] H; cbn in *; try discriminate; [congruence|]. f_equal. auto. Qed.

Lemma nth_error_set_nth_eq i v l x : nth_error l i = Some x -> nth_error (set_nth i v l) i = Some v.
Proof. revert i; induction l as [|y t IH]; intros [|i] H; cbn in *; try discriminate; auto. Qed.

(* L11: splitting the reference-mode flag off the white point and putting it back *)
Lemma l11_pre_post d vs : l11_pre d (fst (l11_post d vs)) (snd (l11_post d vs)) = vs.
Proof.
  unfold l11_post, l11_pre, field_val, set_field.
  destruct (index_of "whitepoint" (b_parse d) 0) as [i|]; [|reflexivity].
  destruct (nth_error vs i) as [wp|] eqn:E; [|cbn [fst snd]; rewrite E; reflexivity].
  destruct (15 <? wp)%Z eqn:E15; cbn [fst snd].
  - rewrite (nth_error_set_nth_eq _ _ _ _ E). rewrite set_nth_set_nth.
    replace (wp - 16 + 16)%Z with wp by lia. apply set_nth_same. exact E.
  - rewrite E. reflexivity.
Qed.

Lemma block_rt v r b r' : parse_block Debug v r = Ok (b, r') ->
  exists bs, consumed r r' bs /\ forall p, wspec r bs (write_block p b).
Proof.
  unfold parse_block. intros H.
  destruct (get_ue Debug r) as [[len r1]| |s] eqn:E1; cbn [bind] in H; try discriminate.
  destruct (get_n 8 8 r1) as [[level r2]| |s] eqn:E2; cbn [bind] in H; try discriminate.
  destruct (mem level (parse_levels v)); [|discriminate].
  destruct (desc_of level) as [d|] eqn:Ed; [|discriminate].
  destruct (desc_of_in _ _ Ed) as [Hin Hlv]. pose proof (desc_compat _ Hin) as Hcomp.
  unfold desc_compatible in Hcomp. repeat (apply andb_prop in Hcomp; destruct Hcomp as [Hcomp ?]).
  apply prog_eqb_eq in Hcomp.
  assert (Hwf : forallb fld_wf (b_parse d) = true) by assumption.
  assert (Hnue : forallb (fun f => negb (is_ue f)) (b_parse d) = true) by assumption.
  destruct (dec_fields Debug (b_parse d) len r2) as [[vs r3]| |s] eqn:E3; cbn [bind] in H; try discriminate.
  set (pf := if is_l11 d then l11_post d vs else (vs, false)) in *.
  assert (Hpre : (if is_l11 d then l11_pre d (fst pf) (snd pf) else fst pf) = vs).
  { unfold pf. destruct (is_l11 d); [apply l11_pre_post|reflexivity]. }
  destruct pf as [vs' flag] eqn:Epf. cbn [fst snd] in Hpre.
  set (b0 := mkBlk level (if b_var_len d then len else bytes_size d (mkBlk level len vs' flag)) vs' flag) in *.
  destruct (if g_block_len_checked_parse then ensure (vl_known level (blen b0)) else Ok tt) as [[]| |s] eqn:Evl; cbn [bind] in H; try discriminate.
  destruct (len =? bytes_size d b0) eqn:Elen; cbn [ensure bind] in H; [|discriminate]. apply N.eqb_eq in Elen.
  destruct (mem level (allowed v)); cbn [ensure bind] in H; [|discriminate].
  destruct (required_bits d b0) as [req| |s] eqn:Ereq; cbn [bind] in H; try discriminate.
  destruct (read_zero_bits _ r3) as [r4| |s] eqn:Ez; cbn [bind] in H; try discriminate.
  inversion H; subst b r'. clear H.
  apply get_ue_rt in E1. destruct E1 as (x1 & Hc1 & Hw1).
  apply get_n_rt in E2. destruct E2 as (x2 & Hc2 & Hw2).
  assert (Hbl : blen b0 = len).
  { unfold b0 at 1. cbn [blen]. destruct (b_var_len d) eqn:Ev; [reflexivity|].
    rewrite Elen. unfold bytes_size. rewrite Ev. reflexivity. }
  destruct (dec_enc_fields Debug (b_parse d) len r2 vs r3 wempty Hwf Hnue E3) as (x3 & Hr3 & Hp3 & _).
  assert (Hc3 : consumed r2 r3 x3) by (split; assumption).
  apply read_zero_bits_rt in Ez.
  exists (x1 ++ x2 ++ x3 ++ zeros (N.to_nat (8 * bytes_size d b0 - req))). split.
  { eapply consumed_trans; [exact Hc1|]. eapply consumed_trans; [exact Hc2|]. eapply consumed_trans; eassumption. }
  intros p w w' _ Hw. unfold write_block in Hw. cbn [blevel b0] in Hw. fold b0 in Hw. rewrite Ed in Hw.
  destruct (if g_block_len_checked_write then ensure (vl_known level (blen b0)) else Ok tt) as [[]| |s]; cbn [bind] in Hw; try discriminate.
  rewrite Ereq in Hw. cbn [bind] in Hw. rewrite <- Elen, Hw1 in Hw. cbn [bind] in Hw.
  change (blevel b0) with level in Hw. rewrite Hw2 in Hw. cbn [bind] in Hw.
  unfold write_block_payload in Hw.
  destruct (if b_validates_on_write d then ensure (block_valid d b0) else Ok tt) as [[]| |s]; cbn [bind] in Hw; try discriminate.
  change (bvals b0) with vs' in Hw. change (bflag b0) with flag in Hw. rewrite Hpre, Hbl in Hw.
  rewrite <- Hcomp in Hw.
  destruct (dec_enc_fields Debug (b_parse d) len r2 vs r3 (wput (wput w x1) x2) Hwf Hnue E3) as (x3' & Hr3' & _ & He3).
  assert (x3' = x3) by (rewrite Hr3 in Hr3'; apply app_inv_tail in Hr3'; auto). subst x3'.
  rewrite (enc_fields_profile _ Hnue p Debug) in Hw. rewrite He3 in Hw. cbn [bind] in Hw.
  inversion Hw. rewrite !wput_app. rewrite Elen. reflexivity.
Qed.

(* ---------------------------------------------------------------- containers *)
Lemma blocks_rt v fuel : forall n r bl r', parse_blocks Debug v fuel n r = Ok (bl, r') ->
  exists bs, consumed r r' bs /\ forall p, wspec r bs (write_blocks p bl).
Proof.
  induction fuel as [|f IH]; intros n r bl r' H; cbn [parse_blocks] in H.
  - destruct (n =? 0); [|discriminate]. inversion H; subst. exists []. split; [apply consumed_nil|]. intros p. apply wspec_nil.
  - destruct (n =? 0).
    { inversion H; subst. exists []. split; [apply consumed_nil|]. intros p. apply wspec_nil. }
    destruct (parse_block Debug v r) as [[b r1]| |s] eqn:Eb; cbn [bind] in H; try discriminate.
    destruct (parse_blocks Debug v f (n - 1) r1) as [[t r2]| |s] eqn:Et; cbn [bind] in H; try discriminate.
    inversion H; subst bl r'. clear H.
    destruct (block_rt _ _ _ _ Eb) as (b1 & Hc1 & Hw1). destruct (IH _ _ _ _ Et) as (b2 & Hc2 & Hw2).
    exists (b1 ++ b2). split; [eapply consumed_trans; eassumption|].
    intros p. cbn [write_blocks]. eapply wspec_bind; [exact Hc1|apply Hw1|apply Hw2].
Qed.

Lemma container_rt v r c r' : parse_container Debug v r = Ok (c, r') ->
  exists bs, consumed r r' bs /\ forall p, wspec r bs (write_container p c).
Proof.
  unfold parse_container. intros H.
  destruct (get_ue Debug r) as [[num r1]| |s] eqn:E1; cbn [bind] in H; try discriminate.
  destruct (if negb g_blocks_alloc_clamped && (1000000 <? num) then Panic site_alloc else Ok tt) as [[]| |s]; cbn [bind] in H; try discriminate.
  destruct (align_zero 8 r1) as [r2| |s] eqn:E2; cbn [bind] in H; try discriminate.
  destruct (parse_blocks Debug v _ num r2) as [[bl r3]| |s] eqn:E3; cbn [bind] in H; try discriminate.
  inversion H; subst c r'. clear H.
  pose proof E1 as E1'. apply get_ue_rt in E1. destruct E1 as (b1 & Hc1 & Hw1).
  destruct (align_zero_rt _ _ _ E2) as [Hc2 Hal].
  destruct (blocks_rt _ _ _ _ _ _ E3) as (b3 & Hc3 & Hw3).
  exists (b1 ++ zeros (N.to_nat (pad_len (rpos r1))) ++ b3). split.
  { eapply consumed_trans; [exact Hc1|]. eapply consumed_trans; eassumption. }
  intros p w w' Hp Hw. unfold write_container in Hw. cbn [cnum cblocks] in Hw. rewrite Hw1 in Hw. cbn [bind] in Hw.
  assert (Hpos : wpos (wput w b1) mod 8 = rpos r1 mod 8).
  { destruct Hc1 as [_ Hq]. rewrite wpos_wput, Hq. rewrite (N.add_mod (wpos w)), (N.add_mod (rpos r)) by lia. rewrite Hp. reflexivity. }
  unfold byte_align in Hw.
  assert (Hpl : pad_len (wpos (wput w b1)) = pad_len (rpos r1)) by (unfold pad_len; rewrite Hpos; reflexivity).
  rewrite Hpl, <- zeros_repeat in Hw.
  apply (Hw3 p) in Hw.
  - rewrite Hw, !wput_app. reflexivity.
  - destruct Hc2 as [_ Hq]. rewrite wpos_wput, Hq. rewrite (N.add_mod (wpos (wput w b1))), (N.add_mod (rpos r1)) by lia.
    rewrite Hpos. reflexivity.
Qed.

(* ---------------------------------------------------------------- the DM payload *)
Lemma dm_progs : dm_main_wprog = dm_main_prog /\ forallb fld_wf dm_main_prog = true /\
                 forallb (fun f => negb (is_ue f)) dm_main_prog = true.
Proof. vm_compute. auto. Qed.

Lemma dm_rt h r d r' : parse_dm Debug h r = Ok (d, r') ->
  exists bs, consumed r r' bs /\ forall p, wspec r bs (write_dm p d).
Proof.
  unfold parse_dm. intros H.
  destruct (get_ue Debug r) as [[a r1]| |s] eqn:E1; cbn [bind] in H; try discriminate.
  destruct (get_ue Debug r1) as [[c r2]| |s] eqn:E2; cbn [bind] in H; try discriminate.
  destruct (get_ue Debug r2) as [[sf r3]| |s] eqn:E3; cbn [bind] in H; try discriminate.
  apply get_ue_rt in E1. destruct E1 as (b1 & Hc1 & Hw1).
  apply get_ue_rt in E2. destruct E2 as (b2 & Hc2 & Hw2).
  apply get_ue_rt in E3. destruct E3 as (b3 & Hc3 & Hw3).
  set (compressed := reserved_zero_3bits h =? dm_compressed_marker) in *.
  destruct dm_progs as (Hprog & Hwf & Hnue).
  assert (Hmain : exists mainv r4 b4,
            (if compressed then Ok (map (fun _ => 0%Z) dm_main_prog, r3) else dec_fields Debug dm_main_prog 0 r3) = Ok (mainv, r4) /\
            consumed r3 r4 b4 /\
            forall p w, (if compressed then Ok w else enc_fields p dm_main_wprog 0 mainv w) = Ok (wput w b4)).
  { destruct compressed.
    - eexists _, r3, []. split; [reflexivity|]. split; [apply consumed_nil|]. intros. rewrite wput_nil. reflexivity.
    - destruct (dec_fields Debug dm_main_prog 0 r3) as [[mv r4]| |s] eqn:Em; cbn [bind] in H; try discriminate.
      destruct (dec_enc_fields Debug dm_main_prog 0 r3 mv r4 wempty Hwf Hnue Em) as (b4 & Hr4 & Hp4 & _).
      exists mv, r4, b4. split; [reflexivity|]. split; [split; assumption|].
      intros p w. rewrite Hprog. rewrite (enc_fields_profile _ Hnue p Debug).
      destruct (dec_enc_fields Debug dm_main_prog 0 r3 mv r4 w Hwf Hnue Em) as (b4' & Hr4' & _ & He).
      assert (b4' = b4) by (rewrite Hr4 in Hr4'; apply app_inv_tail in Hr4'; auto). subst. exact He. }
  destruct Hmain as (mainv & r4 & b4 & Em & Hc4 & Hw4). rewrite Em in H. cbn [bind] in H.
  destruct (parse_container Debug V29 r4) as [[c29 r5]| |s] eqn:E5; cbn [bind] in H; try discriminate.
  destruct (container_rt _ _ _ _ E5) as (b5 & Hc5 & Hw5).
  assert (H40 : exists c40 b6, consumed r5 r' b6 /\
             d = mkDm compressed [a; c; sf] mainv (Some c29) c40 /\
             forall p, wspec r5 b6 (fun w => match c40 with Some cc => write_container p cc w | None => Ok w end)).
  { destruct (avail_ge dm_data_payload2_min_bits r5).
    - destruct (parse_container Debug V40 r5) as [[c40 r6]| |s] eqn:E6; cbn [bind] in H; try discriminate.
      inversion H; subst d r'. destruct (container_rt _ _ _ _ E6) as (b6 & Hc6 & Hw6).
      exists (Some c40), b6. auto.
    - cbn [bind] in H. inversion H; subst d r'. exists None, []. split; [apply consumed_nil|]. split; [reflexivity|].
      intros p. apply wspec_nil. }
  destruct H40 as (c40 & b6 & Hc6 & -> & Hw6). clear H.
  exists ((b1 ++ b2 ++ b3) ++ b4 ++ b5 ++ b6). split.
  { eapply consumed_trans; [eapply consumed_trans; [exact Hc1|eapply consumed_trans; eassumption]|].
    eapply consumed_trans; [exact Hc4|]. eapply consumed_trans; eassumption. }
  intros p. unfold write_dm. cbn [dm_ids dm_compressed dm_main cmv29 cmv40].
  assert (Hc123 : consumed r r3 (b1 ++ b2 ++ b3)).
  { eapply consumed_trans; [exact Hc1|]. eapply consumed_trans; eassumption. }
  eapply wspec_bind; [exact Hc123| |].
  { apply wspec_strong. intros w. rewrite Hw1. cbn [bind]. rewrite Hw2. cbn [bind]. rewrite Hw3, !wput_app. reflexivity. }
  eapply wspec_bind; [exact Hc4|apply wspec_strong; intros w; apply Hw4|].
  eapply wspec_bind; [exact Hc5|apply Hw5|apply Hw6].
Qed.

(* ---------------------------------------------------------------- the whole RPU *)
Lemma get_bits_rt k : forall r bs r', get_bits k r = Ok (bs, r') -> consumed r r' bs.
Proof.
  induction k as [|k IH]; intros r bs r' H; cbn [get_bits] in H.
  - inversion H; subst. apply consumed_nil.
  - destruct (get r) as [[b r1]| |s] eqn:E; cbn [bind] in H; try discriminate.
    destruct (get_bits k r1) as [[t r2]| |s] eqn:Et; cbn [bind] in H; try discriminate.
    inversion H; subst. apply get_rt in E. apply IH in Et.
    change (b :: t) with ([b] ++ t). eapply consumed_trans; eassumption.
Qed.

Lemma get_bits_length k : forall r bs r', get_bits k r = Ok (bs, r') -> List.length bs = k.
Proof.
  induction k as [|k IH]; intros r bs r' H; cbn [get_bits] in H; [inversion H; reflexivity|].
  destruct (get r) as [[b ra]| |s]; cbn [bind] in H; try discriminate.
  destruct (get_bits k ra) as [[t rb]| |s] eqn:Et; cbn [bind] in H; try discriminate.
  inversion H; subst. cbn. f_equal. eapply IH. exact Et.
Qed.

Lemma has_at_least_spec l : forall k, has_at_least l k = true <-> k <= N.of_nat (List.length l).
Proof.
  induction l as [|x t IH]; intros k; cbn [has_at_least List.length].
  - split; intros H; [apply N.eqb_eq in H; lia|apply N.eqb_eq; lia].
  - destruct (k =? 0) eqn:E.
    + apply N.eqb_eq in E. split; intros; [lia|reflexivity].
    + apply N.eqb_neq in E. rewrite IH. lia.
Qed.


(* the only ways an unmodified write could succeed with other bytes: signed coefficients beyond
   2^52 (the third-party signed exp-Golomb reader goes through f64) and a curve mixing polynomial
   and MMR pieces (rejected by the writer when the guard is present) *)
Definition rpu_side_conditions (x : rpu) : Prop :=
  match rmapping x with Some m => mapping_consistent m /\ mapping_small m | None => True end.

Lemma ok_inj {A} (a b : A) : Ok a = Ok b -> a = b.
Proof. intros H; inversion H; reflexivity. Qed.

Lemma pad_len_0 x : x mod 8 = 0 -> pad_len x = 0.
Proof. intros H. unfold pad_len. rewrite H. reflexivity. Qed.

Lemma write_n_32_8 v h8 w : List.length h8 = 8%nat -> v = val h8 -> write_n 32 8 v w = Ok (wput w h8).
Proof.
  intros Hl ->. unfold write_n. cbn [N.ltb N.compare Pos.compare Pos.compare_cont].
  pose proof (val_bound h8) as Hb. rewrite Hl in Hb. change (2 ^ N.of_nat 8) with 256 in Hb.
  replace (2 ^ 8 <=? val h8) with false by (symmetry; apply N.leb_gt; exact Hb).
  cbn [andb]. change (N.to_nat 8) with 8%nat. rewrite (enc_inj_len h8 8 Hl). reflexivity.
Qed.

Definition with_tz (x : rpu) (tz : N) : rpu :=
  mkRpu (dovi_profile x) (el_type x) (hdr x) (rmapping x) (rdm x) (remaining x) (rpu_crc x) (modified x) tz.

Lemma bits_of_bytes_app a b : bits_of_bytes (a ++ b) = bits_of_bytes a ++ bits_of_bytes b.
Proof. induction a as [|x a IH]; cbn [bits_of_bytes app]; [reflexivity|]. rewrite IH, app_assoc. reflexivity. Qed.

Lemma bits_of_zero_bytes k : bits_of_bytes (repeat 0 k) = zeros (8 * k).
Proof.
  induction k as [|k IH]; [reflexivity|]. cbn [repeat bits_of_bytes]. rewrite IH.
  replace (8 * S k)%nat with (8 + 8 * k)%nat by lia. reflexivity.
Qed.

Lemma forallb_app' {A} (f : A -> bool) a b : forallb f a = true -> forallb f b = true -> forallb f (a ++ b) = true.
Proof. intros H1 H2. rewrite forallb_app, H1, H2. reflexivity. Qed.

Lemma zero_bytes_are_bytes k : forallb is_byte (repeat 0 k) = true.
Proof. induction k; cbn; auto. Qed.

Theorem read_write_data sw bytes x tz :
  read_rpu_data Debug sw bytes = Ok x -> forallb is_byte bytes = true -> rpu_side_conditions x ->
  forall p out, write_rpu_data p sw (with_tz x tz) = Ok out -> out = bytes ++ repeat 0 (N.to_nat tz).
Proof.
  unfold read_rpu_data. cbv zeta. intros H Hbytes Hside p out Hw.
  set (r0 := reader_of_bytes bytes) in *.
  destruct (get_n 8 8 r0) as [[prefix r1]| |s] eqn:E1; cbn [bind] in H; try discriminate.
  destruct (prefix =? 25) eqn:Epre; cbn [ensure bind] in H; [|discriminate]. apply N.eqb_eq in Epre. subst prefix.
  destruct (parse_header Debug r1) as [[h r2]| |s] eqn:E2; cbn [bind] in H; try discriminate.
  destruct (header_valid h (get_dovi_profile h)); cbn [ensure bind] in H; [|discriminate].
  destruct (if negb (use_prev_vdr_rpu_flag h) then _ else _) as [[m r3]| |s] eqn:E3 in H; cbn [bind] in H; try discriminate.
  destruct (if vdr_dm_metadata_present_flag h then _ else _) as [[d r4]| |s] eqn:E4 in H; cbn [bind] in H; try discriminate.
  destruct (align_zero 8 r4) as [r5| |s] eqn:E5; cbn [bind] in H; try discriminate.
  destruct (if avail_gt crc32_terminator_bits r5 then _ else _) as [[rem r6]| |s] eqn:E6 in H; cbn [bind] in H; try discriminate.
  destruct (get_n 32 32 r6) as [[crc r7]| |s] eqn:E7; cbn [bind] in H; try discriminate.
  destruct (get_n 8 8 r7) as [[last r8]| |s] eqn:E8; cbn [bind] in H; try discriminate.
  destruct (last =? final_byte) eqn:Elast; cbn [ensure bind] in H; [|discriminate]. apply N.eqb_eq in Elast. subst last.
  inversion H; subst x. clear H. unfold rpu_side_conditions in Hside. cbn [rmapping] in Hside.
  (* reader side *)
  apply get_n_inv in E1. destruct E1 as (_ & h8 & Hr1 & Hl1 & Hv1 & Hp1).
  assert (Hc1 : consumed r0 r1 h8) by (split; [exact Hr1|rewrite Hp1, Hl1; reflexivity]).
  destruct (header_roundtrip_facts _ _ _ E2) as (Hty & Hel & b2 & Hc2 & Hw2).
  assert (Hm : exists b3, consumed r2 r3 b3 /\
            forall pp, wspec r2 b3 (fun w => if negb (use_prev_vdr_rpu_flag h)
                                             then match m with Some mm => write_mapping pp sw h mm w | None => Ok w end
                                             else Ok w)).
  { destruct (negb (use_prev_vdr_rpu_flag h)).
    - destruct (parse_mapping Debug sw h r2) as [[mm rr]| |s] eqn:Em; cbn [bind] in E3; try discriminate.
      inversion E3; subst m r3. destruct Hside as [Hcs Hsm].
      destruct (mapping_roundtrip _ _ _ _ _ Em Hel Hcs Hsm) as (b3 & Hc3 & Hw3).
      exists b3. split; [exact Hc3|]. intros pp. apply wspec_strong. intros w. apply Hw3.
    - inversion E3; subst m r3. exists []. split; [apply consumed_nil|]. intros pp. apply wspec_nil. }
  destruct Hm as (b3 & Hc3 & Hw3).
  assert (Hd : exists b4, consumed r3 r4 b4 /\
            forall pp, wspec r3 b4 (fun w => if vdr_dm_metadata_present_flag h
                                             then match d with Some dd => write_dm pp dd w | None => Ok w end
                                             else Ok w)).
  { destruct (vdr_dm_metadata_present_flag h).
    - destruct (parse_dm Debug h r3) as [[dd rr]| |s] eqn:Ed; cbn [bind] in E4; try discriminate.
      inversion E4; subst d r4. destruct (dm_rt _ _ _ _ Ed) as (b4 & Hc4 & Hw4). exists b4. auto.
    - inversion E4; subst d r4. exists []. split; [apply consumed_nil|]. intros pp. apply wspec_nil. }
  destruct Hd as (b4 & Hc4 & Hw4).
  destruct (align_zero_rt _ _ _ E5) as [Hc5 Hal5].
  assert (Hrem : exists b6, consumed r5 r6 b6 /\ b6 = match rem with Some bs => bs | None => [] end).
  { destruct (avail_gt crc32_terminator_bits r5).
    - destruct (get_bits _ r5) as [[bs rr]| |s] eqn:Eg; cbn [bind] in E6; try discriminate.
      inversion E6; subst rem r6. exists bs. split; [eapply get_bits_rt; exact Eg|reflexivity].
    - inversion E6; subst rem r6. exists []. split; [apply consumed_nil|reflexivity]. }
  destruct Hrem as (b6 & Hc6 & Hb6).
  apply get_n_inv in E7. destruct E7 as (_ & h32 & Hr7 & Hl7 & Hv7 & Hp7).
  assert (Hc7 : consumed r6 r7 h32) by (split; [exact Hr7|rewrite Hp7, Hl7; reflexivity]).
  apply get_n_inv in E8. destruct E8 as (_ & l8 & Hr8 & Hl8 & Hv8 & Hp8).
  assert (Hc8 : consumed r7 r8 l8) by (split; [exact Hr8|rewrite Hp8, Hl8; reflexivity]).
  (* the positions: both sides start at 0 *)
  assert (Hc04 : consumed r0 r4 (h8 ++ b2 ++ b3 ++ b4)).
  { eapply consumed_trans; [exact Hc1|]. eapply consumed_trans; [exact Hc2|]. eapply consumed_trans; eassumption. }
  (* writer side *)
  unfold write_rpu_data, with_tz in Hw. destruct (negb (rpu_valid _)); [discriminate|].
  cbn [dovi_profile el_type hdr rmapping rdm remaining modified rpu_crc trailing_zeroes] in Hw.
  rewrite (write_n_32_8 25 h8 wempty Hl1 Hv1) in Hw. cbn [bind] in Hw.
  rewrite Hw2 in Hw. cbn [bind] in Hw. rewrite Hty in Hw. cbn [N.eqb Pos.eqb] in Hw.
  match type of Hw with (let* w := ?W in _) = _ => destruct W as [w4| |s] eqn:EW; cbn [bind] in Hw; try discriminate end.
  assert (Hw4' : w4 = wput (wput (wput wempty h8) b2) (b3 ++ b4)).
  { assert (Hp2 : wpos (wput (wput wempty h8) b2) mod 8 = rpos r2 mod 8).
    { destruct Hc1 as [_ Q1]. destruct Hc2 as [_ Q2]. rewrite !wpos_wput, Q2, Q1. unfold r0, reader_of_bytes, wempty. cbn [rpos wpos]. first [reflexivity | f_equal; lia]. }
    pose proof (wspec_bind r2 r3 b3 b4 _ _ Hc3 (Hw3 p) (Hw4 p)) as Hsp. cbv beta in Hsp.
    apply (Hsp _ _ Hp2). exact EW. }
  subst w4. rewrite !wput_app in Hw.
  assert (Hpos4 : wpos (wput wempty (h8 ++ b2 ++ b3 ++ b4)) = rpos r4).
  { destruct Hc04 as [_ Q]. rewrite wpos_wput, Q. unfold r0, reader_of_bytes, wempty. cbn [rpos wpos]. reflexivity. }
  change align_before_remaining with true in Hw. cbv iota in Hw.
  assert (Hba : byte_align (wput wempty (h8 ++ b2 ++ b3 ++ b4)) =
                wput (wput wempty (h8 ++ b2 ++ b3 ++ b4)) (zeros (N.to_nat (pad_len (rpos r4)))))
    by (unfold byte_align; rewrite Hpos4, zeros_repeat; reflexivity).
  rewrite Hba in Hw.
  match type of Hw with (let* _ := ?G in _) = _ => destruct G as [[]| |s]; cbn [bind] in Hw; try discriminate end.
  assert (Hwrem : match rem with Some bs => wput (wput (wput wempty (h8 ++ b2 ++ b3 ++ b4)) (zeros (N.to_nat (pad_len (rpos r4))))) bs
                  | None => wput (wput wempty (h8 ++ b2 ++ b3 ++ b4)) (zeros (N.to_nat (pad_len (rpos r4)))) end
                  = wput wempty ((h8 ++ b2 ++ b3 ++ b4) ++ zeros (N.to_nat (pad_len (rpos r4))) ++ b6)).
  { subst b6. destruct rem; rewrite !wput_app; [reflexivity|rewrite app_nil_r; reflexivity]. }
  rewrite Hwrem in Hw.
  assert (Hc06 : consumed r0 r6 ((h8 ++ b2 ++ b3 ++ b4) ++ zeros (N.to_nat (pad_len (rpos r4))) ++ b6)).
  { eapply consumed_trans; [exact Hc04|]. eapply consumed_trans; eassumption. }
  assert (Hc08 : consumed r0 r8 (((h8 ++ b2 ++ b3 ++ b4) ++ zeros (N.to_nat (pad_len (rpos r4))) ++ b6) ++ h32 ++ l8)).
  { eapply consumed_trans; [exact Hc06|]. eapply consumed_trans; eassumption. }
  (* nothing is left after the final byte, so the position before the CRC is a whole number of bytes *)
  assert (Hend : rbits r8 = []).
  { destruct (avail_gt crc32_terminator_bits r5) eqn:Eav.
    - destruct (get_bits _ r5) as [[bs rr]| |s] eqn:Eg; cbn [bind] in E6; try discriminate.
      inversion E6; subst rem rr. pose proof (get_bits_rt _ _ _ _ Eg) as [Q1 _].
      assert (Hlen6 : List.length (rbits r6) = 40%nat).
      { pose proof (get_bits_length _ _ _ _ Eg) as Hbs.
        unfold avail_gt in Eav. apply has_at_least_spec in Eav. unfold crc32_terminator_bits in *.
        rewrite Q1, app_length in Hbs. rewrite Q1, app_length in Eav. lia. }
      rewrite Hr7, Hr8, !app_length in Hlen6. destruct (rbits r8); [reflexivity|cbn in Hlen6; lia].
    - inversion E6; subst rem r6.
      assert (Hle : (List.length (rbits r5) <= 40)%nat).
      { unfold avail_gt in Eav. destruct (has_at_least (rbits r5) (crc32_terminator_bits + 1)) eqn:Eh; [discriminate|].
        destruct (Nat.le_gt_cases (List.length (rbits r5)) 40) as [Hle|Hgt]; [exact Hle|].
        exfalso. assert (Ht : has_at_least (rbits r5) (crc32_terminator_bits + 1) = true)
          by (apply has_at_least_spec; unfold crc32_terminator_bits; lia). congruence. }
      rewrite Hr7, Hr8, !app_length in Hle. destruct (rbits r8); [reflexivity|cbn in Hle; lia]. }
  assert (Hall : bits_of_bytes bytes = ((h8 ++ b2 ++ b3 ++ b4) ++ zeros (N.to_nat (pad_len (rpos r4))) ++ b6) ++ h32 ++ l8).
  { destruct Hc08 as [Q _]. unfold r0, reader_of_bytes in Q. cbn [rbits] in Q. rewrite Hend, app_nil_r in Q. exact Q. }
  assert (Hal6 : N.of_nat (List.length ((h8 ++ b2 ++ b3 ++ b4) ++ zeros (N.to_nat (pad_len (rpos r4))) ++ b6)) mod 8 = 0).
  { pose proof (f_equal (@List.length bool) Hall) as Hlen. rewrite bits_of_bytes_length in Hlen.
    rewrite (app_length _ (h32 ++ l8)), (app_length h32 l8), Hl7, Hl8 in Hlen. change (N.to_nat 32) with 32%nat in Hlen. change (N.to_nat 8) with 8%nat in Hlen. lia. }
  unfold byte_align in Hw. rewrite wpos_wput in Hw. cbn [wempty wpos] in Hw. rewrite N.add_0_l in Hw.
  assert (Hpad0 : pad_len (N.of_nat (List.length ((h8 ++ b2 ++ b3 ++ b4) ++ zeros (N.to_nat (pad_len (rpos r4))) ++ b6))) = 0).
  { apply pad_len_0. exact Hal6. }
  rewrite Hpad0 in Hw. cbn [N.to_nat repeat] in Hw. rewrite wput_nil in Hw.
  cbn [negb andb] in Hw.
  match type of Hw with (if negb (?c =? ?k) then _ else _) = _ => destruct (c =? k) eqn:Ecrc; cbn [negb] in Hw; [|discriminate] end.
  apply N.eqb_eq in Ecrc. rewrite <- Ecrc in Hw.
  unfold write_n in Hw. cbn [N.ltb N.compare Pos.compare Pos.compare_cont andb bind] in Hw.
  replace (2 ^ 8 <=? final_byte) with false in Hw by reflexivity. cbn [andb bind] in Hw.
  apply ok_inj in Hw. subst out.
  change (N.to_nat 32) with 32%nat. change (N.to_nat 8) with 8%nat.
  rewrite !wput_app.
  rewrite Hv7, (enc_inj_len h32 32 Hl7).
  assert (Hfin : enc 8 final_byte = l8).
  { rewrite Hv8. apply enc_inj_len. exact Hl8. }
  rewrite Hfin. unfold wbytes. rewrite wbits_wput. cbn [wempty wrev wbits frev rev_append app].
  rewrite <- !app_assoc in Hall |- *. rewrite <- (bits_of_zero_bytes (N.to_nat tz)).
  replace ((h8 ++ b2 ++ b3 ++ b4 ++ zeros (N.to_nat (pad_len (rpos r4))) ++ b6 ++ h32 ++ l8 ++ bits_of_bytes (repeat 0 (N.to_nat tz))))
    with (bits_of_bytes (bytes ++ repeat 0 (N.to_nat tz))).
  - apply bytes_of_bits_of_bytes. apply forallb_app'; [exact Hbytes|apply zero_bytes_are_bytes].
  - rewrite bits_of_bytes_app, Hall. rewrite <- !app_assoc. reflexivity.
Qed.

(* ---------------------------------------------------------------- trailing zero bytes *)
Lemma clz_split l : l = repeat 0 (count_leading_zeros l) ++ skipn (count_leading_zeros l) l.
Proof. induction l as [|[|p] t IH]; cbn [count_leading_zeros repeat skipn app]; [reflexivity| |reflexivity]. f_equal. exact IH. Qed.

Lemma rev_repeat {A} (x : A) k : rev (repeat x k) = repeat x k.
Proof.
  induction k as [|k IH]; [reflexivity|]. cbn [repeat rev]. rewrite IH.
  clear IH. induction k as [|k IH]; [reflexivity|]. cbn [repeat app]. f_equal. exact IH.
Qed.

Lemma trailing_zero_split data :
  let tz := count_leading_zeros (frev data) in
  data = firstn (List.length data - tz) data ++ repeat 0 tz.
Proof.
  cbv zeta. rewrite frev_rev. set (tz := count_leading_zeros (rev data)).
  pose proof (clz_split (rev data)) as Hs. fold tz in Hs.
  remember (rev (skipn tz (rev data))) as a eqn:Ea.
  assert (Hd : data = a ++ repeat 0 tz).
  { subst a. rewrite <- (rev_involutive data) at 1. rewrite Hs at 1. rewrite rev_app_distr, rev_repeat. reflexivity. }
  assert (Hl : List.length a = (List.length data - tz)%nat).
  { subst a. rewrite rev_length, skipn_length, rev_length. reflexivity. }
  assert (Hf : firstn (List.length data - tz) data = a).
  { rewrite <- Hl. rewrite Hd. rewrite firstn_app, Nat.sub_diag, firstn_all. cbn [firstn]. apply app_nil_r. }
  rewrite Hf. exact Hd.
Qed.

Lemma read_rpu_data_unmodified p sw bytes x : read_rpu_data p sw bytes = Ok x -> modified x = false.
Proof.
  unfold read_rpu_data. cbv zeta. intros H.
  repeat match type of H with
  | bind ?o _ = Ok _ => let v := fresh "v" in destruct o as [v| |]; cbn [bind] in H; [|discriminate|discriminate];
      try match type of v with (_ * _)%type => destruct v end
  end.
  inversion H. reflexivity.
Qed.

Lemma forallb_firstn {A} (f : A -> bool) k l : forallb f l = true -> forallb f (firstn k l) = true.
Proof. revert l; induction k as [|k IH]; intros [|x l] H; cbn in *; auto. apply andb_prop in H. destruct H as [H1 H2]. rewrite H1. cbn. auto. Qed.

(* THE RPU ROUND TRIP (C01): an RPU payload that the parser accepts and the writer writes back
   unmodified comes out byte for byte - every input, every length, trailing zero bytes included *)
Theorem rpu_roundtrip sw data x :
  parse_inner Debug sw data = Ok x -> forallb is_byte data = true -> rpu_side_conditions x ->
  forall p out, write_rpu_data p sw x = Ok out -> out = data.
Proof.
  unfold parse_inner. cbv zeta. intros H Hb Hside p out Hw.
  set (tz := count_leading_zeros (frev data)) in *.
  destruct (match sw_rpu_end_min sw with Some k => _ | None => false end); [discriminate|].
  destruct (_ <? 6)%nat; [discriminate|]. destruct (negb _); [discriminate|].
  destruct (read_rpu_data Debug sw _) as [x0| |s] eqn:E; cbn [bind] in H; try discriminate.
  destruct (negb _); [discriminate|]. destruct (rpu_valid _); [|discriminate].
  inversion H; subst x. clear H.
  pose proof (read_rpu_data_unmodified _ _ _ _ E) as Hm.
  assert (Hx : mkRpu (dovi_profile x0) (el_type x0) (hdr x0) (rmapping x0) (rdm x0) (remaining x0) (rpu_crc x0) false (N.of_nat tz)
               = with_tz x0 (N.of_nat tz)) by (unfold with_tz; rewrite Hm; reflexivity).
  rewrite Hx in Hw.
  rewrite (read_write_data sw _ x0 (N.of_nat tz) E (forallb_firstn _ _ _ Hb) Hside p out Hw).
  rewrite Nat2N.id. symmetry. apply trailing_zero_split.
Qed.

(* ---------------------------------------------------------------- the entry points *)
Lemma forallb_skipn {A} (f : A -> bool) k l : forallb f l = true -> forallb f (skipn k l) = true.
Proof. revert l; induction k as [|k IH]; intros [|x l] H; cbn in *; auto. apply andb_prop in H. destruct H. auto. Qed.

Lemma trimmed_is_suffix data d : validated_trimmed_data data = Ok d -> exists k, d = skipn k data.
Proof.
  unfold validated_trimmed_data. destruct (_ <? 25)%nat; [discriminate|].
  intros H.
  repeat match type of H with
  | match ?l with _ => _ end = _ => destruct l; try discriminate
  end;
  inversion H; first [exists 0%nat; reflexivity | exists 1%nat; reflexivity | exists 2%nat; reflexivity
                     | exists 3%nat; reflexivity | exists 4%nat; reflexivity].
Qed.

(* raw RPU entry point: the unmodified write returns the input without its start-code / NAL-header prefix *)
Theorem parse_rpu_roundtrip sw data x :
  parse_rpu Debug sw data = Ok x -> forallb is_byte data = true -> rpu_side_conditions x ->
  exists d, validated_trimmed_data data = Ok d /\
    forall p out, write_rpu p sw x = Ok out -> out = d.
Proof.
  unfold parse_rpu. intros H Hb Hs.
  destruct (validated_trimmed_data data) as [d| |s] eqn:Ed; cbn [bind] in H; try discriminate.
  exists d. split; [reflexivity|]. intros p out Hw.
  destruct (trimmed_is_suffix _ _ Ed) as [k ->].
  eapply rpu_roundtrip; [exact H|apply forallb_skipn; exact Hb|exact Hs|exact Hw].
Qed.

Lemma unesc_aux_subset l : forall p2 p1 x, In x (unesc_aux p2 p1 l) -> In x l.
Proof.
  induction l as [|b t IH]; intros p2 p1 x H; cbn [unesc_aux] in H; [exact H|].
  destruct ((p2 =? 0) && (p1 =? 0) && (b =? 3)).
  - right. eapply IH. exact H.
  - destruct H as [<-|H]; [left; reflexivity|right; eapply IH; exact H].
Qed.

Lemma unescape_bytes l : forallb is_byte l = true -> forallb is_byte (unescape l) = true.
Proof.
  intros H. rewrite forallb_forall in *. intros x Hx. apply H.
  destruct l as [|a [|b t]]; cbn [unescape] in Hx; auto.
  destruct Hx as [<-|[<-|Hx]]; [left; reflexivity|right; left; reflexivity|].
  right; right. eapply unesc_aux_subset. exact Hx.
Qed.

(* HEVC NAL entry point: the payload comes back in emulation-prevention-free form, and in escaped
   form (with the 7C 01 header) when the input was canonically escaped *)
Theorem parse_nalu_roundtrip sw data x :
  parse_unspec62_nalu Debug sw data = Ok x -> forallb is_byte data = true -> rpu_side_conditions x ->
  exists d, validated_trimmed_data data = Ok d /\
    (forall p out, write_rpu p sw x = Ok out -> out = unescape d) /\
    (canonically_escaped d = true ->
     forall p out, write_hevc_unspec62_nalu p sw x = Ok out -> out = 124 :: 1 :: d).
Proof.
  unfold parse_unspec62_nalu. intros H Hb Hs.
  destruct (validated_trimmed_data data) as [d| |s] eqn:Ed; cbn [bind] in H; try discriminate.
  exists d. split; [reflexivity|].
  destruct (trimmed_is_suffix _ _ Ed) as [k Hk].
  assert (Hbd : forallb is_byte (unescape d) = true) by (apply unescape_bytes; subst d; apply forallb_skipn; exact Hb).
  split.
  - intros p out Hw. eapply rpu_roundtrip; [exact H|exact Hbd|exact Hs|exact Hw].
  - intros Hcan p out Hw. unfold write_hevc_unspec62_nalu in Hw.
    destruct (write_rpu_data p sw x) as [o| |s] eqn:Eo; cbn [bind] in Hw; try discriminate.
    inversion Hw. rewrite (rpu_roundtrip _ _ _ H Hbd Hs p o Eo). rewrite (canonical_spec _ Hcan). reflexivity.
Qed.
