(* SEI walking and HDR10+ removal (C18). *)
From Coq Require Import List NArith ZArith Lia Bool.
From DV Require Import Outcome Bits Escape BitIO Stream.
Import ListNotations.
Open Scope N_scope.

Lemma untouched_without_hdr10plus nalbytes msgs :
  (4 <= List.length (unescape nalbytes))%nat ->
  parse_sei_rbsp (unescape nalbytes) = Some msgs ->
  find (is_hdr10plus (unescape nalbytes)) msgs = None ->
  remove_hdr10plus nalbytes = Ok (false, None).
Proof.
  intros Hl Hp Hf. unfold remove_hdr10plus.
  replace (List.length (unescape nalbytes) <? 4)%nat with false by (symmetry; apply Nat.ltb_ge; exact Hl).
  rewrite Hp, Hf. reflexivity.
Qed.

Lemma only_message_dropped nalbytes m :
  (4 <= List.length (unescape nalbytes))%nat ->
  parse_sei_rbsp (unescape nalbytes) = Some [m] -> is_hdr10plus (unescape nalbytes) m = true ->
  remove_hdr10plus nalbytes = Ok (true, None).
Proof.
  intros Hl Hp Hh. unfold remove_hdr10plus.
  replace (List.length (unescape nalbytes) <? 4)%nat with false by (symmetry; apply Nat.ltb_ge; exact Hl).
  rewrite Hp. cbn [find]. rewrite Hh. reflexivity.
Qed.

Lemma rewrite_cuts_message nalbytes msgs m :
  (4 <= List.length (unescape nalbytes))%nat ->
  parse_sei_rbsp (unescape nalbytes) = Some msgs -> (1 < List.length msgs)%nat ->
  find (is_hdr10plus (unescape nalbytes)) msgs = Some m ->
  remove_hdr10plus nalbytes =
    Ok (true, Some (escape (firstn (m_off m) (unescape nalbytes) ++
                            skipn (m_poff m + m_size m) (unescape nalbytes)))).
Proof.
  intros Hl Hp Hn Hf. unfold remove_hdr10plus.
  replace (List.length (unescape nalbytes) <? 4)%nat with false by (symmetry; apply Nat.ltb_ge; exact Hl).
  rewrite Hp, Hf.
  replace (1 <? List.length msgs)%nat with true by (symmetry; apply Nat.ltb_lt; exact Hn). reflexivity.
Qed.

(* messages are laid out back to back *)
Fixpoint contiguous (off : nat) (msgs : list seimsg) : Prop :=
  match msgs with
  | [] => True
  | m :: t => m_off m = off /\ (off <= m_poff m)%nat /\ contiguous (m_poff m + m_size m) t
  end.

Lemma read_ff_used fuel : forall l acc used v u r,
  read_ff fuel l acc used = Some (v, u, r) -> (used < u)%nat /\ l = firstn (u - used) l ++ r /\ List.length (firstn (u - used) l) = (u - used)%nat.
Proof.
  induction fuel as [|f IH]; intros l acc used v u r H; [discriminate|].
  cbn in H. destruct l as [|b t]; [discriminate|].
  destruct (b =? 255).
  - apply IH in H as [H1 [H2 H3]]. split; [lia|].
    replace (u - used)%nat with (S (u - S used)) by lia. cbn [firstn app List.length]. split; [f_equal; exact H2|f_equal; exact H3].
  - inversion H; subst. split; [lia|]. replace (S used - used)%nat with 1%nat by lia. cbn. auto.
Qed.

Lemma parse_sei_message_off off l m rest :
  parse_sei_message off l = Some (m, rest) -> m_off m = off /\ (off < m_poff m)%nat.
Proof.
  unfold parse_sei_message.
  destruct (read_ff _ l 0 0) as [[[pt u1] r1]|] eqn:E1; [|discriminate].
  destruct (read_ff _ r1 0 0) as [[[sz u2] r2]|] eqn:E2; [|discriminate].
  destruct (_ <? _)%nat; [discriminate|]. destruct (_ <? _)%nat; [discriminate|].
  intros H. inversion H; subst. cbn. apply read_ff_used in E1 as [H1 _]. split; [reflexivity|lia].
Qed.

Lemma messages_contiguous fuel : forall off l msgs,
  parse_sei_messages fuel off l = Some msgs -> contiguous off msgs.
Proof.
  induction fuel as [|f IH]; intros off l msgs H; [discriminate|].
  cbn [parse_sei_messages] in H.
  destruct (parse_sei_message off l) as [[m rest]|] eqn:E; [|discriminate].
  apply parse_sei_message_off in E as [Ho Hp].
  destruct (List.length rest <=? 1)%nat.
  - inversion H; subst. cbn. repeat split; try lia.
  - destruct (parse_sei_messages f _ rest) as [ms|] eqn:E2; [|discriminate].
    inversion H; subst. cbn. repeat split; try lia. eapply IH. exact E2.
Qed.

(* ------------------------------------------------------------------------------------------
   Re-parsing after the cut: removing the bytes of one message from a multi-message SEI leaves a
   SEI whose messages are exactly the other ones, same types, sizes and payload bytes, in order.
   ------------------------------------------------------------------------------------------ *)
Open Scope nat_scope.

(* reading an FF-extended value depends only on the bytes it consumes *)
Lemma read_ff_prefix fuel : forall l acc used v u r,
  read_ff fuel l acc used = Some (v, u, r) ->
  forall X f', u - used <= f' -> read_ff f' (firstn (u - used) l ++ X) acc used = Some (v, u, X).
Proof.
  induction fuel as [|f IH]; intros l acc used v u r H X f' Hf; [discriminate|].
  cbn in H. destruct l as [|b t]; [discriminate|].
  destruct (b =? 255)%N eqn:Eb.
  - pose proof (read_ff_used _ _ _ _ _ _ _ H) as [Hlt _].
    replace (u - used) with (S (u - S used)) in * by lia. cbn [firstn app].
    destruct f' as [|f'']; [lia|]. cbn [read_ff]. rewrite Eb. apply (IH _ _ _ _ _ _ H). lia.
  - inversion H; subst. replace (S used - used) with 1 in * by lia. cbn [firstn app].
    destruct f' as [|f'']; [lia|]. cbn [read_ff]. rewrite Eb. reflexivity.
Qed.

(* one message as a token: its bytes, and the fact that parsing them gives the same message
   (shifted to the new offset) whatever follows *)
Lemma parse_sei_message_token off l m rest :
  parse_sei_message off l = Some (m, rest) ->
  exists tok, l = tok ++ rest /\ List.length tok = m_poff m + m_size m - off /\ off + 2 <= m_poff m /\
    forall off' X, parse_sei_message off' (tok ++ X) =
                   Some (mkSei off' (m_type m) (off' + (m_poff m - off)) (m_size m), X).
Proof.
  unfold parse_sei_message.
  destruct (read_ff (S (List.length l)) l 0 0) as [[[pt u1] r1]|] eqn:E1; [|discriminate].
  destruct (read_ff (S (List.length r1)) r1 0 0) as [[[sz u2] r2]|] eqn:E2; [|discriminate].
  destruct (8 * List.length r2 <? N.to_nat sz) eqn:Ea; [discriminate|].
  destruct (List.length r2 <? N.to_nat sz) eqn:Eb; [discriminate|].
  intros H. inversion H; subst m rest. clear H. cbn [m_poff m_size m_type].
  apply Nat.ltb_ge in Eb.
  pose proof (read_ff_used _ _ _ _ _ _ _ E1) as (H1a & H1b & H1c).
  pose proof (read_ff_used _ _ _ _ _ _ _ E2) as (H2a & H2b & H2c).
  rewrite Nat.sub_0_r in *.
  set (h1 := firstn u1 l) in *. set (h2 := firstn u2 r1) in *.
  set (pl := firstn (N.to_nat sz) r2).
  exists (h1 ++ h2 ++ pl). repeat split.
  - rewrite H1b at 1. rewrite <- app_assoc. f_equal. rewrite H2b at 1. rewrite <- app_assoc. f_equal.
    unfold pl. symmetry. apply firstn_skipn.
  - rewrite !app_length, H1c, H2c. unfold pl. rewrite firstn_length. lia.
  - lia.
  - intros off' X.
    assert (Hr1 : read_ff (S (List.length ((h1 ++ h2 ++ pl) ++ X))) ((h1 ++ h2 ++ pl) ++ X) 0 0 = Some (pt, u1, h2 ++ pl ++ X)).
    { rewrite <- !app_assoc.
      pose proof (read_ff_prefix _ _ _ _ _ _ _ E1 (h2 ++ pl ++ X) (S (List.length (h1 ++ h2 ++ pl ++ X)))) as Hp.
      rewrite Nat.sub_0_r in Hp. fold h1 in Hp. apply Hp. rewrite app_length, H1c. lia. }
    rewrite Hr1.
    assert (Hr2 : read_ff (S (List.length (h2 ++ pl ++ X))) (h2 ++ pl ++ X) 0 0 = Some (sz, u2, pl ++ X)).
    { pose proof (read_ff_prefix _ _ _ _ _ _ _ E2 (pl ++ X) (S (List.length (h2 ++ pl ++ X)))) as Hp.
      rewrite Nat.sub_0_r in Hp. fold h2 in Hp. apply Hp. rewrite app_length, H2c. lia. }
    rewrite Hr2.
    assert (Hpl : List.length pl = N.to_nat sz) by (unfold pl; rewrite firstn_length; lia).
    replace (8 * List.length (pl ++ X) <? N.to_nat sz) with false by (symmetry; apply Nat.ltb_ge; rewrite app_length; lia).
    replace (List.length (pl ++ X) <? N.to_nat sz) with false by (symmetry; apply Nat.ltb_ge; rewrite app_length; lia).
    f_equal. f_equal; [f_equal; lia|].
    rewrite skipn_app, Hpl, Nat.sub_diag, skipn_all2 by lia. reflexivity.
Qed.

(* relational view of parse_sei_messages *)
Inductive tokens : nat -> list N -> list seimsg -> Prop :=
| tk_last off l m rest : parse_sei_message off l = Some (m, rest) -> List.length rest <= 1 -> tokens off l [m]
| tk_cons off l m rest ms : parse_sei_message off l = Some (m, rest) -> 1 < List.length rest ->
                            tokens (m_poff m + m_size m) rest ms -> tokens off l (m :: ms).

Lemma tokens_of_parse fuel : forall off l msgs, parse_sei_messages fuel off l = Some msgs -> tokens off l msgs.
Proof.
  induction fuel as [|f IH]; intros off l msgs H; [discriminate|]. cbn [parse_sei_messages] in H.
  destruct (parse_sei_message off l) as [[m rest]|] eqn:E; [|discriminate].
  destruct (List.length rest <=? 1) eqn:El.
  - inversion H; subst. eapply tk_last; eauto. apply Nat.leb_le. exact El.
  - destruct (parse_sei_messages f _ rest) as [ms|] eqn:E2; [|discriminate]. inversion H; subst.
    eapply tk_cons; eauto. apply Nat.leb_gt in El. lia.
Qed.

Lemma parse_of_tokens : forall off l msgs, tokens off l msgs ->
  forall fuel, List.length l < fuel -> parse_sei_messages fuel off l = Some msgs.
Proof.
  induction 1 as [off l m rest Hp Hl|off l m rest ms Hp Hl Ht IH]; intros fuel Hf; (destruct fuel as [|f]; [lia|]); cbn [parse_sei_messages]; rewrite Hp.
  - replace (List.length rest <=? 1) with true by (symmetry; apply Nat.leb_le; lia). reflexivity.
  - replace (List.length rest <=? 1) with false by (symmetry; apply Nat.leb_gt; lia).
    destruct (parse_sei_message_token _ _ _ _ Hp) as (tok & El & Hlen & Hoff & _).
    rewrite IH; [reflexivity|]. subst l. rewrite app_length in Hf. lia.
Qed.

Definition shift (d : nat) (m : seimsg) : seimsg := mkSei (m_off m - d) (m_type m) (m_poff m - d) (m_size m).

(* tokens are stable under a change of the start offset *)
Lemma tokens_shift : forall off l msgs, tokens off l msgs -> forall d, d <= off -> tokens (off - d) l (map (shift d) msgs).
Proof.
  induction 1 as [off l m rest Hp Hl|off l m rest ms Hp Hl Ht IH]; intros d Hd.
  - destruct (parse_sei_message_token _ _ _ _ Hp) as (tok & El & Hlen & Hoff & Hany).
    pose proof (parse_sei_message_off _ _ _ _ Hp) as [Hmo _].
    cbn [map]. eapply tk_last; [|exact Hl]. subst l. rewrite (Hany (off - d) rest). f_equal. f_equal.
    unfold shift. rewrite Hmo. f_equal. lia.
  - destruct (parse_sei_message_token _ _ _ _ Hp) as (tok & El & Hlen & Hoff & Hany).
    pose proof (parse_sei_message_off _ _ _ _ Hp) as [Hmo _].
    cbn [map]. eapply tk_cons with (rest := rest); [| exact Hl |].
    + subst l. rewrite (Hany (off - d) rest). f_equal. f_equal. unfold shift. rewrite Hmo. f_equal. lia.
    + cbn [shift m_poff m_size]. replace (m_poff m - d + m_size m) with (m_poff m + m_size m - d) by lia.
      apply IH. lia.
Qed.

Lemma tokens_bounds : forall off l msgs, tokens off l msgs ->
  forall m, In m msgs -> off <= m_off m /\ m_off m < m_poff m /\ m_poff m + m_size m - off <= List.length l.
Proof.
  induction 1 as [off l m0 rest Hp Hl|off l m0 rest ms Hp Hl Ht IH]; intros m Hin.
  - destruct Hin as [<-|[]]. destruct (parse_sei_message_token _ _ _ _ Hp) as (tok & El & Hlen & Hoff & _).
    pose proof (parse_sei_message_off _ _ _ _ Hp) as [Hmo _]. subst l. rewrite app_length. lia.
  - destruct (parse_sei_message_token _ _ _ _ Hp) as (tok & El & Hlen & Hoff & _).
    pose proof (parse_sei_message_off _ _ _ _ Hp) as [Hmo _].
    destruct Hin as [<-|Hin]; [subst l; rewrite app_length; lia|].
    destruct (IH m Hin) as (H1 & H2 & H3). subst l. rewrite app_length. lia.
Qed.

Lemma tokens_nonempty off l msgs : tokens off l msgs -> msgs <> [].
Proof. destruct 1; discriminate. Qed.

Lemma tokens_length off l msgs : tokens off l msgs -> 2 <= List.length l.
Proof.
  destruct 1 as [off l m rest Hp _|off l m rest ms Hp _ _];
    destruct (parse_sei_message_token _ _ _ _ Hp) as (tok & El & Hlen & Hoff & _); subst l; rewrite app_length; lia.
Qed.

Lemma tokens_single_inv off l m : tokens off l [m] ->
  exists rest, parse_sei_message off l = Some (m, rest) /\ List.length rest <= 1.
Proof.
  intros H. inversion H as [? ? ? rest Hp Hl|? ? ? rest ms Hp Hl Ht]; subst.
  - exists rest. split; assumption.
  - exfalso. apply tokens_nonempty in Ht. congruence.
Qed.

(* THE CUT: removing the bytes [m_off, m_poff + m_size) of one message of a multi-message SEI
   leaves exactly the other messages - those before it untouched, those after it shifted down by
   the removed length - with the same types, sizes and (hence) payload bytes, in the same order *)
Theorem tokens_cut : forall off l msgs, tokens off l msgs ->
  forall pre m post, msgs = pre ++ m :: post -> (pre <> [] \/ post <> []) ->
  tokens off (firstn (m_off m - off) l ++ skipn (m_poff m + m_size m - off) l)
         (pre ++ map (shift (m_poff m + m_size m - m_off m)) post).
Proof.
  induction 1 as [off l m0 rest Hp Hl|off l m0 rest ms Hp Hl Ht IH]; intros pre m post Hmsgs Hne.
  - (* a single message: impossible *)
    destruct pre as [|x pre']; cbn in Hmsgs.
    + inversion Hmsgs; subst. destruct Hne as [H|H]; congruence.
    + inversion Hmsgs as [[Hx Hrest]]. destruct pre'; discriminate.
  - destruct (parse_sei_message_token _ _ _ _ Hp) as (tok & El & Hlen & Hoff & Hany).
    pose proof (parse_sei_message_off _ _ _ _ Hp) as [Hmo _].
    destruct pre as [|x pre']; cbn [app] in Hmsgs; inversion Hmsgs as [[Hx Hrest]].
    + (* the first message is cut: what follows, shifted *)
      subst m0 post. rewrite Hmo, Nat.sub_diag. cbn [firstn app].
      subst l. rewrite skipn_app, Hlen, Nat.sub_diag, skipn_all2 by lia. cbn [app skipn].
      replace off with (m_poff m + m_size m - (m_poff m + m_size m - off)) at 1 by lia.
      apply tokens_shift; [exact Ht|lia].
    + (* a later message is cut *)
      subst x ms.
      assert (Hin : In m (pre' ++ m :: post)) by (apply in_or_app; right; left; reflexivity).
      destruct (tokens_bounds _ _ _ Ht m Hin) as (Hb1 & Hb2 & Hb3).
      set (e0 := m_poff m0 + m_size m0) in *.
      assert (Hcut : firstn (m_off m - off) l ++ skipn (m_poff m + m_size m - off) l =
                     tok ++ (firstn (m_off m - e0) rest ++ skipn (m_poff m + m_size m - e0) rest)).
      { subst l. rewrite firstn_app, skipn_app, Hlen.
        rewrite firstn_all2 by lia. rewrite (skipn_all2 tok) by lia. cbn [app].
        rewrite <- app_assoc. f_equal. f_equal; f_equal; unfold e0; lia. }
      rewrite Hcut. cbn [app].
      destruct (pre' ++ map (shift (m_poff m + m_size m - m_off m)) post) as [|y ys] eqn:Erest.
      * (* m was the only message after m0: the trailing bytes remain *)
        apply app_eq_nil in Erest. destruct Erest as [-> Hpost]. apply map_eq_nil in Hpost. subst post.
        cbn [app] in Ht. destruct (tokens_single_inv _ _ _ Ht) as (rest2 & Hp2 & Hl2).
        destruct (parse_sei_message_token _ _ _ _ Hp2) as (tok2 & El2 & Hlen2 & Hoff2 & _).
        pose proof (parse_sei_message_off _ _ _ _ Hp2) as [Hmo2 _].
        eapply tk_last with (rest := firstn (m_off m - e0) rest ++ skipn (m_poff m + m_size m - e0) rest).
        -- rewrite (Hany off _). f_equal. f_equal. destruct m0; cbn in *. subst. f_equal. lia.
        -- rewrite El2. rewrite Hmo2. rewrite Nat.sub_diag. cbn [firstn app].
           rewrite skipn_app, Hlen2, Nat.sub_diag, skipn_all2 by lia. cbn. exact Hl2.
      * rewrite <- Erest.
        eapply tk_cons with (rest := firstn (m_off m - e0) rest ++ skipn (m_poff m + m_size m - e0) rest).
        -- rewrite (Hany off _). f_equal. f_equal. destruct m0; cbn in *. subst. f_equal. lia.
        -- (* something is left: at least one whole message *)
           assert (Hne2 : pre' <> [] \/ post <> []).
           { destruct pre'; [right|left; discriminate]. destruct post; [cbn in Erest; discriminate|discriminate]. }
           pose proof (IH pre' m post eq_refl Hne2) as Hrec. apply tokens_length in Hrec. fold e0 in Hrec. lia.
        -- assert (Hne2 : pre' <> [] \/ post <> []).
           { destruct pre'; [right|left; discriminate]. destruct post; [cbn in Erest; discriminate|discriminate]. }
           apply (IH pre' m post eq_refl Hne2).
Qed.

(* messages before the cut end before it, those after it start after it *)
Lemma tokens_order : forall off l msgs, tokens off l msgs ->
  forall pre m post, msgs = pre ++ m :: post ->
  (forall x, In x pre -> m_poff x + m_size x <= m_off m) /\
  (forall x, In x post -> m_poff m + m_size m <= m_off x).
Proof.
  induction 1 as [off l m0 rest Hp Hl|off l m0 rest ms Hp Hl Ht IH]; intros pre m post Hmsgs.
  - destruct pre as [|x pre']; cbn in Hmsgs; inversion Hmsgs as [[Hx Hrest]].
    + subst. split; intros x [].
    + destruct pre'; discriminate.
  - destruct pre as [|x pre']; cbn [app] in Hmsgs; inversion Hmsgs as [[Hx Hrest]].
    + subst m0 post. split; [intros x []|]. intros x Hin.
      destruct (tokens_bounds _ _ _ Ht x Hin) as (H1 & _). exact H1.
    + subst x ms. destruct (IH pre' m post eq_refl) as [Hpre Hpost]. split; [|exact Hpost].
      intros x [<-|Hin]; [|apply Hpre; exact Hin].
      assert (Hinm : In m (pre' ++ m :: post)) by (apply in_or_app; right; left; reflexivity).
      destruct (tokens_bounds _ _ _ Ht m Hinm) as (H1 & _). exact H1.
Qed.

Definition payload (data : list N) (m : seimsg) : list N := firstn (m_size m) (skipn (m_poff m) data).

Lemma firstn_skipn_app_l {A} (a b : list A) n k : n + k <= List.length a ->
  firstn k (skipn n (a ++ b)) = firstn k (skipn n a).
Proof.
  intros H. rewrite skipn_app. replace (n - List.length a) with 0 by lia. cbn [skipn].
  rewrite firstn_app. rewrite skipn_length. replace (k - (List.length a - n)) with 0 by lia.
  cbn [firstn]. apply app_nil_r.
Qed.

Lemma skipn_skipn' {A} (l : list A) a b : skipn a (skipn b l) = skipn (a + b) l.
Proof.
  revert l; induction b as [|b IH]; intros l; [rewrite Nat.add_0_r; reflexivity|].
  destruct l as [|x l]; [rewrite !skipn_nil; reflexivity|].
  rewrite Nat.add_succ_r. cbn [skipn]. apply IH.
Qed.

(* a message that ends before the cut keeps its payload bytes where they were *)
Lemma payload_before_cut data a b x : m_poff x + m_size x <= a -> a <= List.length data ->
  payload (firstn a data ++ skipn b data) x = payload data x.
Proof.
  intros H Ha. unfold payload. rewrite firstn_skipn_app_l by (rewrite firstn_length; lia).
  rewrite <- (firstn_skipn a data) at 2.
  rewrite firstn_skipn_app_l by (rewrite firstn_length; lia). reflexivity.
Qed.

(* a message that starts after the cut keeps its payload bytes, b - a positions earlier *)
Lemma payload_after_cut data a b x : a <= b -> b <= m_off x -> m_off x < m_poff x -> a <= List.length data ->
  payload (firstn a data ++ skipn b data) (shift (b - a) x) = payload data x.
Proof.
  intros Hab Hb Hx Ha. unfold payload, shift. cbn [m_poff m_size].
  rewrite skipn_app, firstn_length. replace (Nat.min a (List.length data)) with a by lia.
  rewrite (skipn_all2 (firstn a data)) by (rewrite firstn_length; lia). cbn [app].
  rewrite skipn_skipn'. f_equal. f_equal. lia.
Qed.

Lemma is_hdr10plus_payload d1 m1 d2 m2 :
  m_type m1 = m_type m2 -> m_size m1 = m_size m2 -> payload d1 m1 = payload d2 m2 ->
  is_hdr10plus d1 m1 = is_hdr10plus d2 m2.
Proof.
  intros Ht Hs Hp. unfold is_hdr10plus. rewrite Ht, Hs.
  destruct (7 <=? m_size m2)%nat eqn:E; [|rewrite !andb_false_r; reflexivity].
  apply Nat.leb_le in E.
  assert (H7 : forall d m, (7 <= m_size m)%nat -> firstn 7 (skipn (m_poff m) d) = firstn 7 (payload d m)).
  { intros d m H. unfold payload. rewrite firstn_firstn. f_equal. lia. }
  rewrite (H7 d1 m1) by lia. rewrite (H7 d2 m2) by lia. rewrite Hp. reflexivity.
Qed.

Lemma find_split {A} (f : A -> bool) l m : find f l = Some m ->
  exists pre post, l = pre ++ m :: post /\ f m = true /\ forall x, In x pre -> f x = false.
Proof.
  induction l as [|a l IH]; [discriminate|]. cbn [find]. destruct (f a) eqn:E.
  - intros H. inversion H; subst. exists [], l. repeat split; [exact E|intros x []].
  - intros H. destruct (IH H) as (pre & post & -> & Hm & Hpre). exists (a :: pre), post.
    repeat split; [exact Hm|]. intros x [<-|Hin]; [exact E|apply Hpre; exact Hin].
Qed.

Lemma cut_shape {A} (h0 h1 : A) body a b : 2 <= a -> 2 <= b ->
  firstn a (h0 :: h1 :: body) ++ skipn b (h0 :: h1 :: body) =
  h0 :: h1 :: (firstn (a - 2) body ++ skipn (b - 2) body).
Proof.
  intros Ha Hb. destruct a as [|[|a']]; [lia|lia|]. destruct b as [|[|b']]; [lia|lia|].
  replace (S (S a') - 2) with a' by lia. replace (S (S b') - 2) with b' by lia. reflexivity.
Qed.

(* THE RE-PARSE THEOREM.  When remove_hdr10plus rewrites a NAL with several messages, the
   rewritten NAL (un-escaped again, as any reader will) parses into exactly the other messages:
   same count minus one, same order, same types and sizes, same payload bytes; and if the removed
   message was the only HDR10+ one, none of the remaining messages is HDR10+. *)
Theorem rewritten_nal_reparses nalbytes msgs m :
  let data := unescape nalbytes in
  (4 <= List.length data)%nat ->
  parse_sei_rbsp data = Some msgs -> (1 < List.length msgs)%nat ->
  find (is_hdr10plus data) msgs = Some m ->
  exists pre post out,
    msgs = pre ++ m :: post /\
    remove_hdr10plus nalbytes = Ok (true, Some out) /\
    let data' := unescape out in
    let post' := map (shift (m_poff m + m_size m - m_off m)) post in
    parse_sei_rbsp data' = Some (pre ++ post') /\
    (forall x, In x pre -> payload data' x = payload data x) /\
    (forall x, In x post -> payload data' (shift (m_poff m + m_size m - m_off m) x) = payload data x) /\
    ((forall x, In x post -> is_hdr10plus data x = false) ->
     forall y, In y (pre ++ post') -> is_hdr10plus data' y = false).
Proof.
  intros data Hlen Hp Hn Hf.
  destruct (find_split _ _ _ Hf) as (pre & post & Hmsgs & Hm & Hpre).
  exists pre, post, (escape (firstn (m_off m) data ++ skipn (m_poff m + m_size m) data)).
  split; [exact Hmsgs|]. split; [apply rewrite_cuts_message with (msgs := msgs); assumption|].
  cbn zeta.
  (* the shape of the NAL *)
  unfold parse_sei_rbsp in Hp. destruct data as [|h0 [|h1 body]] eqn:Ed; [discriminate|discriminate|].
  destruct ((N.land (N.shiftr h0 1) 63 =? 39)%N || (N.land (N.shiftr h0 1) 63 =? 40)%N) eqn:Et; [|discriminate].
  apply tokens_of_parse in Hp.
  assert (Hh0 : h0 <> 0%N).
  { intros ->. cbn in Et. discriminate. }
  assert (Hne : pre <> [] \/ post <> []).
  { subst msgs. rewrite app_length in Hn. cbn in Hn. destruct pre; [right|left; discriminate]. destruct post; [cbn in Hn; lia|discriminate]. }
  assert (Hin : In m msgs) by (subst msgs; apply in_or_app; right; left; reflexivity).
  destruct (tokens_bounds _ _ _ Hp m Hin) as (Hb1 & Hb2 & Hb3).
  destruct (tokens_order _ _ _ Hp pre m post Hmsgs) as [Hopre Hopost].
  pose proof (tokens_cut _ _ _ Hp pre m post Hmsgs Hne) as Hcut.
  set (a := m_off m) in *. set (b := m_poff m + m_size m) in *.
  assert (Hshape : firstn a (h0 :: h1 :: body) ++ skipn b (h0 :: h1 :: body) =
                   h0 :: h1 :: (firstn (a - 2) body ++ skipn (b - 2) body)).
  { apply cut_shape; unfold a, b; lia. }
  rewrite unescape_escape by (rewrite Hshape; exact Hh0).
  assert (Hab : a <= b) by (unfold a, b; lia).
  assert (Hal : a <= List.length (h0 :: h1 :: body)) by (cbn [List.length]; lia).
  repeat split.
  - rewrite Hshape. unfold parse_sei_rbsp. rewrite Et.
    apply parse_of_tokens; [exact Hcut|lia].
  - intros x Hx. apply payload_before_cut; [apply Hopre; exact Hx|exact Hal].
  - intros x Hx. assert (Hix : In x msgs) by (subst msgs; apply in_or_app; right; right; exact Hx).
    destruct (tokens_bounds _ _ _ Hp x Hix) as (_ & Hx2 & _).
    apply payload_after_cut; [exact Hab|apply Hopost; exact Hx|exact Hx2|exact Hal].
  - intros Hpost y Hy. apply in_app_or in Hy. destruct Hy as [Hy|Hy].
    + rewrite (is_hdr10plus_payload _ y (h0 :: h1 :: body) y eq_refl eq_refl); [apply Hpre; exact Hy|].
      apply payload_before_cut; [apply Hopre; exact Hy|exact Hal].
    + apply in_map_iff in Hy. destruct Hy as (x & <- & Hx).
      assert (Hix : In x msgs) by (subst msgs; apply in_or_app; right; right; exact Hx).
      destruct (tokens_bounds _ _ _ Hp x Hix) as (_ & Hx2 & _).
      rewrite (is_hdr10plus_payload _ (shift (b - a) x) (h0 :: h1 :: body) x eq_refl eq_refl); [apply Hpost; exact Hx|].
      apply payload_after_cut; [exact Hab|apply Hopost; exact Hx|exact Hx2|exact Hal].
Qed.
