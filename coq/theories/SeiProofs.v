(* SEI walking and HDR10+ removal (C18). *)
From Coq Require Import List NArith ZArith Lia Bool.
From DV Require Import Outcome Bits Escape BitIO Stream.
Import ListNotations.
Open Scope N_scope.

Lemma untouched_without_hdr10plus nalbytes msgs :
  (4 <= List.length (unescape nalbytes))%nat ->
  parse_sei_rbsp (unescape nalbytes) = Some msgs ->
  find (is_hdr10plus (unescape nalbytes)) msgs = None ->
  remove_hdr10plus nalbytes = Ok (false, None).
Proof.
  intros Hl Hp Hf. unfold remove_hdr10plus.
  replace (List.length (unescape nalbytes) <? 4)%nat with false by (symmetry; apply Nat.ltb_ge; exact Hl).
  rewrite Hp, Hf. reflexivity.
Qed.

Lemma only_message_dropped nalbytes m :
  (4 <= List.length (unescape nalbytes))%nat ->
  parse_sei_rbsp (unescape nalbytes) = Some [m] -> is_hdr10plus (unescape nalbytes) m = true ->
  remove_hdr10plus nalbytes = Ok (true, None).
Proof.
  intros Hl Hp Hh. unfold remove_hdr10plus.
  replace (List.length (unescape nalbytes) <? 4)%nat with false by (symmetry; apply Nat.ltb_ge; exact Hl).
  rewrite Hp. cbn [find]. rewrite Hh. reflexivity.
Qed.

Lemma rewrite_cuts_message nalbytes msgs m :
  (4 <= List.length (unescape nalbytes))%nat ->
  parse_sei_rbsp (unescape nalbytes) = Some msgs -> (1 < List.length msgs)%nat ->
  find (is_hdr10plus (unescape nalbytes)) msgs = Some m ->
  remove_hdr10plus nalbytes =
    Ok (true, Some (escape (firstn (m_off m) (unescape nalbytes) ++
                            skipn (m_poff m + m_size m) (unescape nalbytes)))).
Proof.
  intros Hl Hp Hn Hf. unfold remove_hdr10plus.
  replace (List.length (unescape nalbytes) <? 4)%nat with false by (symmetry; apply Nat.ltb_ge; exact Hl).
  rewrite Hp, Hf.
  replace (1 <? List.length msgs)%nat with true by (symmetry; apply Nat.ltb_lt; exact Hn). reflexivity.
Qed.

(* messages are laid out back to back *)
Fixpoint contiguous (off : nat) (msgs : list seimsg) : Prop :=
  match msgs with
  | [] => True
  | m :: t => m_off m = off /\ (off <= m_poff m)%nat /\ contiguous (m_poff m + m_size m) t
  end.

Lemma read_ff_used fuel : forall l acc used v u r,
  read_ff fuel l acc used = Some (v, u, r) -> (used < u)%nat /\ l = firstn (u - used) l ++ r /\ List.length (firstn (u - used) l) = (u - used)%nat.
Proof.
  induction fuel as [|f IH]; intros l acc used v u r H; [discriminate|].
  cbn in H. destruct l as [|b t]; [discriminate|].
  destruct (b =? 255).
  - apply IH in H as [H1 [H2 H3]]. split; [lia|].
    replace (u - used)%nat with (S (u - S used)) by lia. cbn [firstn app List.length]. split; [f_equal; exact H2|f_equal; exact H3].
  - inversion H; subst. split; [lia|]. replace (S used - used)%nat with 1%nat by lia. cbn. auto.
Qed.

Lemma parse_sei_message_off off l m rest :
  parse_sei_message off l = Some (m, rest) -> m_off m = off /\ (off < m_poff m)%nat.
Proof.
  unfold parse_sei_message.
  destruct (read_ff _ l 0 0) as [[[pt u1] r1]|] eqn:E1; [|discriminate].
  destruct (read_ff _ r1 0 0) as [[[sz u2] r2]|] eqn:E2; [|discriminate].
  destruct (_ <? _)%nat; [discriminate|]. destruct (_ <? _)%nat; [discriminate|].
  intros H. inversion H; subst. cbn. apply read_ff_used in E1 as [H1 _]. split; [reflexivity|lia].
Qed.

Lemma messages_contiguous fuel : forall off l msgs,
  parse_sei_messages fuel off l = Some msgs -> contiguous off msgs.
Proof.
  induction fuel as [|f IH]; intros off l msgs H; [discriminate|].
  cbn [parse_sei_messages] in H.
  destruct (parse_sei_message off l) as [[m rest]|] eqn:E; [|discriminate].
  apply parse_sei_message_off in E as [Ho Hp].
  destruct (List.length rest <=? 1)%nat.
  - inversion H; subst. cbn. repeat split; try lia.
  - destruct (parse_sei_messages f _ rest) as [ms|] eqn:E2; [|discriminate].
    inversion H; subst. cbn. repeat split; try lia. eapply IH. exact E2.
Qed.
