(* Models of the bit reader / writer the code calls
   (bitvec_helpers 3.1.6 BsIoSliceReader / BitstreamIoWriter over bitstream-io 2.6.0). *)
From Coq Require Import List NArith ZArith Lia Bool.
From DV Require Import Outcome Bits.
Import ListNotations.
Open Scope N_scope.
Local Open Scope out_scope.

(* ---------------- reader ---------------- *)
Record reader := mkR { rbits : list bool; rpos : N }.

Definition reader_of_bytes (l : list N) : reader := mkR (bits_of_bytes l) 0.

Definition get (r : reader) : outcome (bool * reader) :=
  match rbits r with
  | [] => Err
  | b :: t => Ok (b, mkR t (rpos r + 1))
  end.

(* get_n::<T>(n) with tbits = bits of T: error if n > available or n > tbits *)
Definition get_n (tbits n : N) (r : reader) : outcome (N * reader) :=
  if n <=? tbits then
    match take (N.to_nat n) (rbits r) with
    | Some (h, t) => Ok (val h, mkR t (rpos r + n))
    | None => Err
    end
  else Err.

Definition is_aligned (r : reader) : bool := (rpos r mod 8) =? 0.

(* available() compared with a number: `has_at_least l k` <-> length l >= k; structural on the
   list so that a huge (attacker-chosen) k costs nothing *)
Fixpoint has_at_least (l : list bool) (k : N) : bool :=
  match l with
  | [] => k =? 0
  | _ :: t => if k =? 0 then true else has_at_least t (k - 1)
  end.
Definition avail_ge (k : N) (r : reader) : bool := has_at_least (rbits r) k.
Definition avail_gt (k : N) (r : reader) : bool := has_at_least (rbits r) (k + 1).
Definition avail_eq (k : N) (r : reader) : bool := avail_ge k r && negb (avail_gt k r).

(* read_unary1: number of 0 bits before the first 1 (consumes the 1) *)
Fixpoint read_unary1 (l : list bool) (acc : N) : option (N * list bool) :=
  match l with
  | [] => None
  | true :: t => Some (acc, t)
  | false :: t => read_unary1 t (acc + 1)
  end.

Definition two64 : N := 18446744073709551616.
Definition two63 : N := 9223372036854775808.

Definition get_ue (p : profile) (r : reader) : outcome (N * reader) :=
  match read_unary1 (rbits r) 0 with
  | None => Err
  | Some (lz, t) =>
      let r1 := mkR t (rpos r + lz + 1) in
      if lz =? 0 then Ok (0, r1)
      else
        let* '(v, r2) := get_n 64 lz r1 in
        if lz =? 64 then
          match p with
          | Debug => Panic site_ue_shift
          | Release => Ok (v, r2)          (* 1 << 64 wraps to 1: v + 1 - 1 *)
          end
        else Ok (v + 2 ^ lz - 1, r2)
  end.

(* u64 -> f64 conversion (round to nearest, ties to even), as an integer *)
Definition round_f64 (x : N) : N :=
  let k := N.log2 x - 52 in
  if k =? 0 then x
  else
    let q := x / 2 ^ k in
    let rem := x mod 2 ^ k in
    let half := 2 ^ (k - 1) in
    let q' := if rem <? half then q
              else if half <? rem then q + 1
              else if N.even q then q else q + 1 in
    q' * 2 ^ k.

(* get_se: m = floor(((code + 1) as f64) / 2.0) as u64; even code -> -(m as i64), odd -> m as i64 *)
Definition get_se (p : profile) (r : reader) : outcome (Z * reader) :=
  let* '(code, r1) := get_ue p r in
  let c1 := (code + 1) mod two64 in      (* code + 1 only wraps when lz = 64 (Release) *)
  let m := round_f64 c1 / 2 in
  if N.even code then
    if m =? two63 then
      match p with
      | Debug => Panic site_se_neg
      | Release => Ok ((- Z.of_N two63)%Z, r1)
      end
    else Ok ((- Z.of_N m)%Z, r1)
  else
    if m =? two63 then Ok ((- Z.of_N two63)%Z, r1)   (* m as i64 wraps to i64::MIN *)
    else Ok (Z.of_N m, r1).

(* ---------------- writer ---------------- *)
(* bits are accumulated reversed; wpos counts them *)
Record writer := mkW { wrev : list bool; wpos : N }.
Definition wempty : writer := mkW [] 0.
Definition wbits (w : writer) : list bool := frev (wrev w).

Definition wput (w : writer) (bs : list bool) : writer :=
  mkW (rev_append bs (wrev w)) (wpos w + N.of_nat (length bs)).

Definition write_bit (b : bool) (w : writer) : outcome writer := Ok (wput w [b]).

(* write_n::<T>(v, n): Err if n > bits(T); Err if n < bits(T) and v >= 2^n *)
Definition write_n (tbits n v : N) (w : writer) : outcome writer :=
  if tbits <? n then Err
  else if (n <? tbits) && (2 ^ n <=? v) then Err
  else Ok (wput w (enc (N.to_nat n) v)).

(* write_signed_n::<iT>(v, n), big endian: n = bits(T): raw two's complement;
   otherwise sign bit then n-1 bits of v (+ 2^(n-1) if negative) *)
Definition write_signed_n (tbits n : N) (v : Z) (w : writer) : outcome writer :=
  if n =? 0 then Err
  else if tbits <? n then Err
  else if n =? tbits then
    Ok (wput w (enc (N.to_nat n) (Z.to_N (v mod 2 ^ Z.of_N n))))
  else if (v <? 0)%Z then
    let u := Z.to_N (v + 2 ^ Z.of_N (n - 1))%Z in
    (* bitstream-io: write_bit(true) then write(n-1, unsigned); value range of the type
       guarantees v + 2^(n-1) fits unless v < -2^(n-1), which is rejected by the width check *)
    if (v + 2 ^ Z.of_N (n - 1) <? 0)%Z then Err
    else
      let* w1 := write_bit true w in
      write_n tbits (n - 1) u w1
  else
    let* w1 := write_bit false w in
    write_n tbits (n - 1) (Z.to_N v) w1.

Definition write_ue (p : profile) (v : N) (w : writer) : outcome writer :=
  if v =? 0 then write_bit true w
  else if v + 1 =? two64 then
    match p with Debug => Panic site_ue_write | Release => Panic site_ue_write end
  else
    let lz := N.log2 (v + 1) in
    let w1 := wput w (repeat false (N.to_nat lz) ++ [true]) in
    write_n 64 lz (v + 1 - 2 ^ lz) w1.

(* signed_to_unsigned: v > 0 -> 2v - 1, else -2v (i64 arithmetic) *)
Definition write_se (p : profile) (v : Z) (w : writer) : outcome writer :=
  if (0 <? v)%Z then
    if (Z.of_N two63 <=? 2 * v)%Z then
      match p with
      | Debug => Panic site_se_write
      | Release => write_ue p (Z.to_N ((2 * v - 1) mod Z.of_N two64)) w
      end
    else write_ue p (Z.to_N (2 * v - 1)) w
  else
    if (Z.of_N two63 <? - 2 * v)%Z then
      match p with
      | Debug => Panic site_se_write
      | Release => write_ue p (Z.to_N ((- 2 * v) mod Z.of_N two64)) w
      end
    else if (Z.of_N two63 =? - 2 * v)%Z then
      (* -2 * v = 2^63 does not fit i64 *)
      match p with
      | Debug => Panic site_se_write
      | Release => write_ue p two63 w
      end
    else write_ue p (Z.to_N (- 2 * v)) w.

Definition w_is_aligned (w : writer) : bool := (wpos w mod 8) =? 0.

Definition pad_len (pos : N) : N := (8 - pos mod 8) mod 8.

Definition byte_align (w : writer) : writer :=
  wput w (repeat false (N.to_nat (pad_len (wpos w)))).

(* align with 1 bits (AV1 payload trailer) *)
Definition byte_align_ones (w : writer) : writer :=
  wput w (repeat true (N.to_nat (pad_len (wpos w)))).

Definition wbytes (w : writer) : list N := bytes_of_bits (wbits w).

(* ---------------- lemmas ---------------- *)

Lemma wbits_wput w bs : wbits (wput w bs) = wbits w ++ bs.
Proof. unfold wbits, wput. cbn [wrev]. rewrite !frev_rev. rewrite rev_append_rev, rev_app_distr, rev_involutive.
  reflexivity. Qed.

Lemma wpos_wput w bs : wpos (wput w bs) = wpos w + N.of_nat (length bs).
Proof. reflexivity. Qed.

Lemma read_unary1_spec l acc n t :
  read_unary1 l acc = Some (n, t) ->
  exists k, n = acc + N.of_nat k /\ l = repeat false k ++ true :: t.
Proof.
  revert acc. induction l as [|b l IH]; intros acc H; [discriminate|].
  destruct b; cbn in H.
  - inversion H; subst. exists 0%nat. split; [lia|reflexivity].
  - apply IH in H as [k [-> ->]]. exists (S k). split; [lia|reflexivity].
Qed.

Lemma read_unary1_repeat k t acc :
  read_unary1 (repeat false k ++ true :: t) acc = Some (acc + N.of_nat k, t).
Proof.
  revert acc. induction k as [|k IH]; intros acc; cbn.
  - f_equal. f_equal. lia.
  - rewrite IH. f_equal. f_equal. lia.
Qed.

Lemma log2_pow_bounds v : v <> 0 -> 2 ^ N.log2 v <= v < 2 ^ N.succ (N.log2 v).
Proof. intros H. apply N.log2_spec. lia. Qed.

(* exp-Golomb: parsing what was written returns the value (for every value < 2^64 - 1) *)
Theorem get_ue_write_ue p v w w' rest :
  v + 1 < two64 ->
  write_ue p v w = Ok w' ->
  exists bs, wbits w' = wbits w ++ bs /\
    forall pos, get_ue p (mkR (bs ++ rest) pos) = Ok (v, mkR rest (pos + N.of_nat (length bs))).
Proof.
  intros Hv H. unfold write_ue in H.
  destruct (v =? 0) eqn:E0.
  - apply N.eqb_eq in E0. subst v. cbn in H. inversion H; subst.
    exists [true]. split; [apply wbits_wput|]. intros pos. unfold get_ue. cbn.
    f_equal. f_equal. f_equal. lia.
  - apply N.eqb_neq in E0.
    destruct (v + 1 =? two64) eqn:E1; [apply N.eqb_eq in E1; lia|].
    set (lz := N.log2 (v + 1)) in *.
    assert (Hlz : 2 ^ lz <= v + 1 < 2 ^ N.succ lz) by (apply log2_pow_bounds; lia).
    assert (Hlz0 : 0 < lz).
    { unfold lz. apply N.log2_pos. lia. }
    assert (Hlz64 : lz < 64).
    { destruct (N.lt_ge_cases lz 64) as [Hl|Hl]; [exact Hl|].
      assert (2 ^ 64 <= 2 ^ lz) by (apply N.pow_le_mono_r; lia).
      change (2 ^ 64) with two64 in *. lia. }
    unfold write_n in H.
    replace (64 <? lz) with false in H by (symmetry; apply N.ltb_ge; lia).
    rewrite N.pow_succ_r' in Hlz.
    replace (2 ^ lz <=? v + 1 - 2 ^ lz) with false in H by (symmetry; apply N.leb_gt; lia).
    rewrite andb_false_r in H. inversion H; subst. clear H.
    exists ((repeat false (N.to_nat lz) ++ [true]) ++ enc (N.to_nat lz) (v + 1 - 2 ^ lz)).
    split.
    { rewrite !wbits_wput. rewrite <- !app_assoc. reflexivity. }
    intros pos. unfold get_ue. cbn [rbits rpos].
    rewrite <- !app_assoc. cbn [app]. rewrite read_unary1_repeat.
    rewrite N2Nat.id. cbn [N.add].
    replace (lz =? 0) with false by (symmetry; apply N.eqb_neq; lia).
    unfold get_n. replace (lz <=? 64) with true by (symmetry; apply N.leb_le; lia).
    cbn [rbits rpos].
    assert (Hl : length (enc (N.to_nat lz) (v + 1 - 2 ^ lz)) = N.to_nat lz) by apply enc_length.
    rewrite <- Hl at 1. rewrite take_app. cbn [bind].
    replace (lz =? 64) with false by (symmetry; apply N.eqb_neq; lia).
    rewrite enc_val_small by (rewrite N2Nat.id; lia).
    f_equal. f_equal; [lia|]. f_equal.
    rewrite app_length, repeat_length. cbn [length]. rewrite Hl. lia.
Qed.
