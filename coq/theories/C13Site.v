(* C13 at the call site: the NAL the library writes for an RPU (write_hevc_unspec62_nalu) is the canonical
   escaping of the RPU payload - no start code emulation, every 00 00 03 an escape, un-escaping returns the
   payload - for every canonical in-memory RPU. *)
From Coq Require Import List NArith ZArith Lia Bool.
From DV Require Import Outcome Bits Escape BitIO Fields Blocks Rpu RpuWS.
Import ListNotations.
Open Scope N_scope.
Local Open Scope out_scope.

Lemma bytes_of_bits_head25 rest : hd 1 (bytes_of_bits (enc 8 25 ++ rest)) = 25.
Proof. unfold bytes_of_bits. cbn [enc app List.length]. reflexivity. Qed.

Lemma written_nal_clean p sw x nal :
  write_hevc_unspec62_nalu p sw x = Ok nal -> rpu_canonical sw x ->
  exists payload,
    write_rpu_data p sw x = Ok payload /\ nal = 124 :: 1 :: escape payload /\
    no_start_code_emulation nal = true /\ esc03_ok 1 1 nal = true /\
    unescape (skipn 2 nal) = payload.
Proof.
  unfold write_hevc_unspec62_nalu. intros H Hc.
  destruct (write_rpu_data p sw x) as [payload| |s] eqn:E; cbn [bind] in H; try discriminate.
  inversion H; subst nal; clear H.
  destruct (write_decompose p sw x payload E Hc) as (bh & bm & bd & Hd).
  cbv zeta in Hd. destruct Hd as (_ & _ & _ & _ & _ & _ & Hout).
  assert (Hh : hd 1 payload <> 0).
  { rewrite Hout, <- !app_assoc, bytes_of_bits_head25. discriminate. }
  exists payload. split; [reflexivity|]. split; [reflexivity|].
  split; [apply nal_no_start_code_emulation; exact Hh|].
  split; [apply nal_03_is_escape; exact Hh|].
  cbn [skipn]. apply unescape_escape. exact Hh.
Qed.
