(* C03: the header the writer emits is read back as exactly the header held in memory. *)
From Coq Require Import List NArith ZArith Lia Bool String.
From DV Require Import Outcome Bits BitIO Fields Blocks Rpu Tables FieldsProofs C03Proofs HeaderRT RpuRT DmWS.
Import ListNotations.
Open Scope N_scope.
Local Open Scope out_scope.
Require Import ZifyBool ZifyN.
Ltac Zify.zify_post_hook ::= Z.div_mod_to_equations.

Lemma write_bit_reads b : reads get [b] b.
Proof. intros rest pos. unfold get. cbn. reflexivity. Qed.

(* the header as held in memory by the tool: every value within its Rust type, the derived and
   the not-coded fields in the state the parser leaves them in *)
Record header_canonical (h : header) : Prop := {
  hc_type : rpu_type h = 2;
  hc_format : rpu_format h < 65536;
  hc_profile : vdr_rpu_profile h < 256; hc_level : vdr_rpu_level h < 256;
  hc_seq : if vdr_seq_info_present_flag h then
             coefficient_data_type h <= 1 /\
             coefficient_log2_denom_length h = (if coefficient_data_type h =? 0 then coefficient_log2_denom h mod 4294967296 else 32) /\
             (if coefficient_data_type h =? 0 then coefficient_log2_denom h + 1 < two64 else coefficient_log2_denom h = 0) /\
             vdr_rpu_normalized_idc h < 256 /\
             (if seq_info_ok h then
                bl_bit_depth_minus8 h + 1 < two64 /\ el_bit_depth_minus8 h < 256 /\
                ext_mapping_idc_0_4 h < 32 /\ ext_mapping_idc_5_7 h < 8 /\
                vdr_bit_depth_minus8 h + 1 < two64 /\ reserved_zero_3bits h < 256
              else
                bl_bit_depth_minus8 h = 0 /\ el_bit_depth_minus8 h = 0 /\ ext_mapping_idc_0_4 h = 0 /\
                ext_mapping_idc_5_7 h = 0 /\ vdr_bit_depth_minus8 h = 0 /\
                spatial_resampling_filter_flag h = false /\ reserved_zero_3bits h = 0 /\
                el_spatial_resampling_filter_flag h = false /\ disable_residual_flag h = false)
           else
             chroma_resampling_explicit_filter_flag h = false /\ coefficient_data_type h = 0 /\
             coefficient_log2_denom h = 0 /\ coefficient_log2_denom_length h = 0 /\
             vdr_rpu_normalized_idc h = 0 /\ bl_video_full_range_flag h = false /\
             bl_bit_depth_minus8 h = 0 /\ el_bit_depth_minus8 h = 0 /\ ext_mapping_idc_0_4 h = 0 /\
             ext_mapping_idc_5_7 h = 0 /\ vdr_bit_depth_minus8 h = 0 /\
             spatial_resampling_filter_flag h = false /\ reserved_zero_3bits h = 0 /\
             el_spatial_resampling_filter_flag h = false /\ disable_residual_flag h = false;
  hc_prev : if use_prev_vdr_rpu_flag h then prev_vdr_rpu_id h + 1 < two64 else prev_vdr_rpu_id h = 0 }.

(* joining and splitting the el / ext_mapping value *)
Definition el_join (e57 e04 el : N) : N :=
  N.lor (N.shiftl (N.lor (N.land (N.shiftl e57 5) 255) e04) 8) el.

Lemma el_split e57 e04 el : e57 < 8 -> e04 < 32 -> el < 256 ->
  let v := el_join e57 e04 el in
  v < 65536 /\ N.land v 255 = el /\ N.land (N.land (N.shiftr v 8) 255) 31 = e04 /\
  N.shiftr (N.land (N.shiftr v 8) 255) 5 = e57.
Proof.
  intros H1 H2 H3. cbv zeta. unfold el_join.
  change 255 with (N.ones 8). change 31 with (N.ones 5).
  rewrite !N.land_ones, !N.shiftr_div_pow2. change (2 ^ 8) with 256. change (2 ^ 5) with 32.
  assert (Hs : N.shiftl e57 5 mod 256 = N.shiftl e57 5).
  { apply N.mod_small. rewrite N.shiftl_mul_pow2. change (2 ^ 5) with 32. lia. }
  rewrite Hs. rewrite (lor_shift_add e57 e04 5) by (change (2 ^ 5) with 32; lia). change (2 ^ 5) with 32.
  rewrite (lor_shift_add (e57 * 32 + e04) el 8) by (change (2 ^ 8) with 256; lia). change (2 ^ 8) with 256.
  repeat split; lia.
Qed.

Lemma bind_assoc' {A B C} (x : outcome A) (f : A -> outcome B) (g : B -> outcome C) :
  bind (bind x f) g = bind x (fun a => bind (f a) g).
Proof. destruct x; reflexivity. Qed.

Ltac ws_n H :=
  rewrite ?bind_assoc' in H;
  match type of H with
  | bind (write_n ?tb ?n ?v ?w) _ = _ =>
      let E := fresh "E" in let w1 := fresh "w" in let b := fresh "b" in let R := fresh "R" in
      destruct (write_n tb n v w) as [w1| |] eqn:E; cbn [bind] in H; [|discriminate|discriminate];
      apply write_n_reads in E; [destruct E as (b & -> & R)|cbn; first [assumption | lia]]
  end.
Ltac ws_ue H :=
  rewrite ?bind_assoc' in H;
  match type of H with
  | bind (write_ue ?p ?v ?w) _ = _ =>
      let E := fresh "E" in let w1 := fresh "w" in let b := fresh "b" in let R := fresh "R" in
      destruct (write_ue p v w) as [w1| |] eqn:E; cbn [bind] in H; [|discriminate|discriminate];
      apply write_ue_reads in E; [destruct E as (b & -> & R)|first [assumption | unfold two64 in *; lia]]
  end.

Ltac rd :=
  repeat first
   [ match goal with R : reads (get_n ?tb ?n) ?b ?v |- context [get_n ?tb ?n (mkR (?b ++ _) _)] =>
       rewrite R; clear R; cbn [bind ensure] end
   | match goal with R : forall p', reads (get_ue p') ?b ?v |- context [get_ue Debug (mkR (?b ++ _) _)] =>
       rewrite (R Debug); clear R; cbn [bind ensure] end
   | progress cbn [get rbits rpos bind ensure N.eqb Pos.eqb] ].

Ltac fin_pos :=
  match goal with |- Ok (_, mkR _ ?p1) = Ok (_, mkR _ ?p2) => replace p1 with p2; [reflexivity|] end;
  repeat first [rewrite app_length | progress cbn [List.length]];
  repeat match goal with Hx : _ |- _ => clear Hx end; lia.

Ltac start_read :=
  eexists; split; [rewrite ?wput_app; reflexivity|]; intros rest pos; unfold parse_header;
  rewrite <- ?app_assoc; cbn [app].

Theorem header_write_sound p h w w' :
  write_header p h w = Ok w' -> header_canonical h ->
  exists bs, w' = wput w bs /\ reads (parse_header Debug) bs h.
Proof.
  intros H [Hty Hfmt Hprof Hlvl Hseq Hprev].
  destruct h as [ty fmt prf lvl seq chroma cdt denom dlen norm full bl el e04 e57 vdr spatial res3 elsp disable dm prev previd].
  cbn [rpu_type rpu_format vdr_rpu_profile vdr_rpu_level vdr_seq_info_present_flag chroma_resampling_explicit_filter_flag
       coefficient_data_type coefficient_log2_denom coefficient_log2_denom_length vdr_rpu_normalized_idc bl_video_full_range_flag
       bl_bit_depth_minus8 el_bit_depth_minus8 ext_mapping_idc_0_4 ext_mapping_idc_5_7 vdr_bit_depth_minus8
       spatial_resampling_filter_flag reserved_zero_3bits el_spatial_resampling_filter_flag disable_residual_flag
       vdr_dm_metadata_present_flag use_prev_vdr_rpu_flag prev_vdr_rpu_id] in *.
  unfold seq_info_ok in Hseq. cbn [rpu_format] in Hseq. subst ty.
  unfold write_header, write_bit, seq_info_ok in H.
  cbn [rpu_type rpu_format vdr_rpu_profile vdr_rpu_level vdr_seq_info_present_flag chroma_resampling_explicit_filter_flag
       coefficient_data_type coefficient_log2_denom coefficient_log2_denom_length vdr_rpu_normalized_idc bl_video_full_range_flag
       bl_bit_depth_minus8 el_bit_depth_minus8 ext_mapping_idc_0_4 ext_mapping_idc_5_7 vdr_bit_depth_minus8
       spatial_resampling_filter_flag reserved_zero_3bits el_spatial_resampling_filter_flag disable_residual_flag
       vdr_dm_metadata_present_flag use_prev_vdr_rpu_flag prev_vdr_rpu_id] in H.
  ws_n H. ws_n H. ws_n H. ws_n H. cbn [bind] in H.
  destruct seq.
  - destruct Hseq as (Hcdt & Hdlen & Hden & Hnorm & Hsi). cbn [bind] in H.
    ws_n H.
    destruct (cdt =? 0) eqn:Ecdt.
    + ws_ue H. ws_n H. cbn [bind] in H.
      destruct (N.land fmt 1792 =? 0) eqn:Efmt.
      * destruct Hsi as (Hbl & Hel & He04 & He57 & Hvdr & Hres).
        destruct (el_split e57 e04 el He57 He04 Hel) as (Hv & Hs1 & Hs2 & Hs3). fold (el_join e57 e04 el) in H.
        ws_ue H. ws_ue H. ws_ue H. cbn [bind] in H. ws_n H. cbn [bind] in H.
        assert (Hvb : (el_join e57 e04 el <? 65536) = true) by (apply N.ltb_lt; exact Hv).
        destruct prev.
        -- apply write_ue_reads in H; [|assumption]. destruct H as (b11 & -> & R10).
           start_read. rd. rewrite Ecdt. rd. rewrite Efmt. rd. rewrite Hvb. rd.
           rewrite Hs1, Hs2, Hs3, Hdlen. fin_pos.
        -- inversion H; subst w'. clear H. subst previd.
           start_read. rd. rewrite Ecdt. rd. rewrite Efmt. rd. rewrite Hvb. rd.
           rewrite Hs1, Hs2, Hs3, Hdlen. fin_pos.
      * destruct Hsi as (-> & -> & -> & -> & -> & -> & -> & -> & ->).
        destruct prev.
        -- apply write_ue_reads in H; [|assumption]. destruct H as (b11 & -> & R10).
           start_read. rd. rewrite Ecdt. rd. rewrite Efmt. rd. rewrite Hdlen. fin_pos.
        -- inversion H; subst w'. clear H. subst previd.
           start_read. rd. rewrite Ecdt. rd. rewrite Efmt. rd. rewrite Hdlen. fin_pos.
    + assert (Hc1 : cdt = 1) by (apply N.eqb_neq in Ecdt; lia). subst cdt. subst denom. subst dlen.
      cbn [bind] in H. ws_n H. cbn [bind] in H.
      destruct (N.land fmt 1792 =? 0) eqn:Efmt.
      * destruct Hsi as (Hbl & Hel & He04 & He57 & Hvdr & Hres).
        destruct (el_split e57 e04 el He57 He04 Hel) as (Hv & Hs1 & Hs2 & Hs3). fold (el_join e57 e04 el) in H.
        ws_ue H. ws_ue H. ws_ue H. cbn [bind] in H. ws_n H. cbn [bind] in H.
        assert (Hvb : (el_join e57 e04 el <? 65536) = true) by (apply N.ltb_lt; exact Hv).
        destruct prev.
        -- apply write_ue_reads in H; [|assumption]. destruct H as (b11 & -> & R10).
           start_read. rd. cbn [N.eqb Pos.eqb bind]. rd. rewrite Efmt. rd. rewrite Hvb. rd.
           rewrite Hs1, Hs2, Hs3. fin_pos.
        -- inversion H; subst w'. clear H. subst previd.
           start_read. rd. cbn [N.eqb Pos.eqb bind]. rd. rewrite Efmt. rd. rewrite Hvb. rd.
           rewrite Hs1, Hs2, Hs3. fin_pos.
      * destruct Hsi as (-> & -> & -> & -> & -> & -> & -> & -> & ->).
        destruct prev.
        -- apply write_ue_reads in H; [|assumption]. destruct H as (b11 & -> & R10).
           start_read. rd. cbn [N.eqb Pos.eqb bind]. rd. rewrite Efmt. rd. fin_pos.
        -- inversion H; subst w'. clear H. subst previd.
           start_read. rd. cbn [N.eqb Pos.eqb bind]. rd. rewrite Efmt. rd. fin_pos.
  - destruct Hseq as (-> & -> & -> & -> & -> & -> & -> & -> & -> & -> & -> & -> & -> & -> & ->).
    cbn [bind] in H.
    destruct prev.
    + apply write_ue_reads in H; [|assumption]. destruct H as (b11 & -> & R10).
      start_read. rd. fin_pos.
    + inversion H; subst w'. clear H. subst previd.
      start_read. rd. fin_pos.
Qed.
