(* Facts about the certified PQ tables (C19): lookups, monotonicity, endpoints. *)
From Coq Require Import Reals List ZArith Lia Bool String.
From DV Require Import Pq.
From DVgen Require Import Consts_gen PqTables_gen PqCertAll PqUsers_gen.
Import ListNotations.
Open Scope Z_scope.

Fixpoint lookup {A} (k : Z) (l : list (Z * A)) : option A :=
  match l with
  | [] => None
  | (k', v) :: t => if Z.eqb k k' then Some v else lookup k t
  end.

Lemma lookup_In {A} k (l : list (Z * A)) v : lookup k l = Some v -> In (k, v) l.
Proof.
  induction l as [|[k' v'] t IH]; cbn; [discriminate|].
  destruct (Z.eqb_spec k k') as [->|]; intros H.
  - inversion H; subst. left. reflexivity.
  - right. apply IH. exact H.
Qed.

(* the keys of the table are exactly 0..n in order *)
Fixpoint zlist_eqb (a b : list Z) : bool :=
  match a, b with
  | [], [] => true
  | x :: a', y :: b' => Z.eqb x y && zlist_eqb a' b'
  | _, _ => false
  end.
Lemma zlist_eqb_eq a b : zlist_eqb a b = true -> a = b.
Proof.
  revert b. induction a as [|x a IH]; destruct b as [|y b]; cbn; try discriminate; [reflexivity|].
  intros H. apply andb_true_iff in H as [H1 H2]. apply Z.eqb_eq in H1. subst. f_equal. apply IH, H2.
Qed.

Definition complete {A} (n : Z) (l : list (Z * A)) : bool :=
  zlist_eqb (map fst l) (map Z.of_nat (seq 0 (Z.to_nat n + 1))).

Lemma In_keys_lookup {A} k (l : list (Z * A)) : In k (map fst l) -> exists v, lookup k l = Some v.
Proof.
  induction l as [|[k' v'] t IH]; cbn; [tauto|].
  intros [H|H].
  - subst. rewrite Z.eqb_refl. eauto.
  - destruct (Z.eqb k k'); [eauto|]. apply IH, H.
Qed.

Lemma complete_spec {A} n (l : list (Z * A)) :
  complete n l = true -> forall k, 0 <= k <= n -> exists v, lookup k l = Some v.
Proof.
  unfold complete. intros H k Hk. apply zlist_eqb_eq in H. apply In_keys_lookup. rewrite H.
  apply in_map_iff. exists (Z.to_nat k). split; [lia|]. apply in_seq. lia.
Qed.

(* non-decreasing values in key order (the table is sorted by key, see `complete`) *)
Fixpoint nondecr (l : list Z) : bool :=
  match l with
  | a :: (b :: _) as t => (a <=? b) && nondecr t
  | _ => true
  end.
Definition monotone_tab (l : list (Z * Z)) : bool := nondecr (map snd l).

(* strictly increasing rationals in code order *)
Definition frac_lt (a b : Z * Z) : bool := fst a * snd b <? fst b * snd a.
Fixpoint strict_fracs (l : list (Z * Z)) : bool :=
  match l with
  | a :: (b :: _) as t => frac_lt a b && strict_fracs t
  | _ => true
  end.
Definition strict_tab (l : list (Z * (Z * Z))) : bool := strict_fracs (map snd l).

Lemma nits_entry_cert L c : lookup L nits_table = Some c -> cert_nits (L, c).
Proof. intros H. apply lookup_In in H. pose proof nits_table_cert as F.
  rewrite Forall_forall in F. apply F. exact H. Qed.
Lemma min_entry_cert k c : lookup k min_table = Some c -> cert_min (k, c).
Proof. intros H. apply lookup_In in H. pose proof min_table_cert as F.
  rewrite Forall_forall in F. apply F. exact H. Qed.
Lemma code_entry_cert c v : lookup c code_table = Some v -> cert_code (c, v).
Proof. intros H. apply lookup_In in H. pose proof code_table_cert as F.
  rewrite Forall_forall in F. apply F. exact H. Qed.
