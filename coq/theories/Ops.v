(* In-memory operations on a parsed / generated RPU: block container edits (C12), conversions (C04),
   crop / active area / remove mapping / remove CM v4.0 / level copy.
   Models of vdr_dm_data.rs (add/remove/replace), extension_metadata/{mod,cmv29,cmv40}.rs,
   dovi_rpu.rs (convert_with_mode and callees), rpu_data_mapping.rs (set_empty_p81_mapping),
   rpu_data_nlq.rs (convert_to_mel / mel_default), profiles/profile84.rs. *)
From Coq Require Import List NArith ZArith Lia Bool String.
From DV Require Import Outcome Bits BitIO Fields Blocks Rpu.
From DVgen Require Import Consts_gen Blocks_gen DmData_gen Switches_gen Modes_gen.
Import ListNotations.
Open Scope N_scope.
Local Open Scope out_scope.

(* ------------------------------------------------------------ containers *)
Definition container_of_level (d : dmdata) (level : N) : option (cmver * container) :=
  if mem level cmv29_allowed then option_map (fun c => (V29, c)) (cmv29 d)
  else if mem level cmv40_allowed then option_map (fun c => (V40, c)) (cmv40 d)
  else None.

Definition set_container (d : dmdata) (v : cmver) (c : container) : dmdata :=
  match v with
  | V29 => mkDm (dm_compressed d) (dm_ids d) (dm_main d) (Some c) (cmv40 d)
  | V40 => mkDm (dm_compressed d) (dm_ids d) (dm_main d) (cmv29 d) (Some c)
  end.

(* WithExtMetadataBlocks::add_block *)
Definition c_add_block (v : cmver) (c : container) (b : block) : outcome container :=
  let* _ := ensure (mem (blevel b) (allowed v)) in
  Ok (update_info (mkC (cnum c) (cblocks c ++ [b]))).

(* WithExtMetadataBlocks::remove_level *)
Definition c_remove_level (c : container) (level : N) : container :=
  update_info (mkC (cnum c) (filter (fun b => negb (blevel b =? level)) (cblocks c))).

(* replace_level{2,8,10}_block: replace the first block of that level with the same target, else push *)
Fixpoint replace_first (level : N) (target : Z) (nb : block) (l : list block) : option (list block) :=
  match l with
  | [] => None
  | b :: t => if (blevel b =? level) && (target_of b =? target)%Z then Some (nb :: t)
              else option_map (cons b) (replace_first level target nb t)
  end.
Definition c_upsert (c : container) (nb : block) : container :=
  match replace_first (blevel nb) (target_of nb) nb (cblocks c) with
  | Some l => update_info (mkC (cnum c) l)
  | None => update_info (mkC (cnum c) (cblocks c ++ [nb]))
  end.

(* VdrDmData::add_metadata_block: silently Ok when the level has no container *)
Definition dm_add_block (d : dmdata) (b : block) : outcome dmdata :=
  match container_of_level d (blevel b) with
  | Some (v, c) => let* c' := c_add_block v c b in Ok (set_container d v c')
  | None => Ok d
  end.

Definition dm_remove_level (d : dmdata) (level : N) : dmdata :=
  match container_of_level d level with
  | Some (v, c) => set_container d v (c_remove_level c level)
  | None => d
  end.

Definition dm_replace_level (d : dmdata) (b : block) : outcome dmdata :=
  dm_add_block (dm_remove_level d (blevel b)) b.

Definition keyed_level (l : N) : bool := (l =? 2) || (l =? 8) || (l =? 10).

(* VdrDmData::replace_metadata_block *)
Definition dm_replace_block (d : dmdata) (b : block) : outcome dmdata :=
  if keyed_level (blevel b) then
    match container_of_level d (blevel b) with
    | Some (v, c) => Ok (set_container d v (c_upsert c b))
    | None => Err
    end
  else if is_some (desc_of (blevel b)) then dm_replace_level d b
  else Err.    (* Reserved *)

Fixpoint dm_replace_blocks (d : dmdata) (bs : list block) : outcome dmdata :=
  match bs with
  | [] => Ok d
  | b :: t => let* d' := dm_replace_block d b in dm_replace_blocks d' t
  end.

Definition level_blocks (d : dmdata) (level : N) : list block :=
  match container_of_level d level with
  | Some (_, c) => filter (fun b => blevel b =? level) (cblocks c)
  | None => []
  end.

(* ------------------------------------------------------------ RPU-level edits *)
Definition with_dm (x : rpu) (d : option dmdata) (m : bool) : rpu :=
  mkRpu (dovi_profile x) (el_type x) (hdr x) (rmapping x) d (remaining x) (rpu_crc x) m (trailing_zeroes x).
Definition set_modified (x : rpu) : rpu := with_dm x (rdm x) true.

Definition default_block (level : N) : block :=
  match desc_of level with
  | Some d => mkBlk level (match b_lengths d with (l, _) :: _ => l | [] => 0 end)
                    (map f_def (b_parse d)) false
  | None => mkBlk level 0 [] false
  end.

Definition l5_block (l r t b : Z) : block := mkBlk 5 7 [l; r; t; b] false.

(* DoviRpu::set_active_area_offsets / crop (crop = zero offsets) *)
Definition set_offsets (x : rpu) (l r t b : Z) : outcome rpu :=
  match rdm x with
  | Some d => let* d' := dm_replace_block d (l5_block l r t b) in Ok (with_dm x (Some d') true)
  | None => Ok (set_modified x)
  end.
Definition crop (x : rpu) : outcome rpu := set_offsets x 0 0 0 0.

(* DoviPolynomialCurve::set_p81_params / p81_default, RpuDataMapping::set_empty_p81_mapping *)
Definition p81_poly : poly_curve := mkPoly [0] [false] [[0%Z; 1%Z]] [[0; 0]].
Definition empty_p81_curve (c : curve) : curve := mkCurve 0 [0; 1023] 0 (Some p81_poly) None.
Definition set_empty_p81_mapping (m : mapping) : mapping :=
  mkMap (vdr_rpu_id m) (mapping_color_space m) (mapping_chroma_format_idc m)
        (num_x_partitions_minus1 m) (num_y_partitions_minus1 m) (map empty_p81_curve (curves m))
        (nlq_method_idc m) (nlq_num_pivots_minus2 m) (nlq_pred_pivot_value m) (mnlq m).

Definition with_mapping (x : rpu) (m : option mapping) : rpu :=
  mkRpu (dovi_profile x) (el_type x) (hdr x) m (rdm x) (remaining x) (rpu_crc x) true (trailing_zeroes x).

Definition remove_mapping (x : rpu) : rpu :=
  with_mapping x (option_map set_empty_p81_mapping (rmapping x)).

Definition remove_cmv40 (x : rpu) : rpu :=
  match rdm x with
  | Some d => match cmv40 d with
              | Some _ => with_dm x (Some (mkDm (dm_compressed d) (dm_ids d) (dm_main d) (cmv29 d) None)) true
              | None => x
              end
  | None => x
  end.

Fixpoint copy_levels (dst src : dmdata) (levels : list N) : outcome dmdata :=
  match levels with
  | [] => Ok dst
  | l :: t => let* d := dm_replace_blocks dst (level_blocks src l) in copy_levels d src t
  end.

(* DoviRpu::replace_levels_from_rpu *)
Definition replace_levels_from_rpu (x src : rpu) (levels : list N) : outcome rpu :=
  match levels with
  | [] => Err
  | _ => match rdm x, rdm src with
         | Some d, Some s => let* d' := copy_levels d s levels in Ok (with_dm x (Some d') true)
         | _, _ => Ok x
         end
  end.

(* ------------------------------------------------------------ conversions *)
Definition set_hdr (x : rpu) (h : header) : rpu :=
  mkRpu (dovi_profile x) (el_type x) h (rmapping x) (rdm x) (remaining x) (rpu_crc x) (modified x) (trailing_zeroes x).

Definition hdr_set_el (h : header) (el_spatial disable : bool) : header :=
  mkH (rpu_type h) (rpu_format h) (vdr_rpu_profile h) (vdr_rpu_level h) (vdr_seq_info_present_flag h)
      (chroma_resampling_explicit_filter_flag h) (coefficient_data_type h) (coefficient_log2_denom h)
      (coefficient_log2_denom_length h) (vdr_rpu_normalized_idc h) (bl_video_full_range_flag h)
      (bl_bit_depth_minus8 h) (el_bit_depth_minus8 h) (ext_mapping_idc_0_4 h) (ext_mapping_idc_5_7 h)
      (vdr_bit_depth_minus8 h) (spatial_resampling_filter_flag h) (reserved_zero_3bits h)
      el_spatial disable (vdr_dm_metadata_present_flag h) (use_prev_vdr_rpu_flag h) (prev_vdr_rpu_id h).

Definition hdr_set_profile (h : header) (vp : N) (full : bool) : header :=
  mkH (rpu_type h) (rpu_format h) vp (vdr_rpu_level h) (vdr_seq_info_present_flag h)
      (chroma_resampling_explicit_filter_flag h) (coefficient_data_type h) (coefficient_log2_denom h)
      (coefficient_log2_denom_length h) (vdr_rpu_normalized_idc h) full
      (bl_bit_depth_minus8 h) (el_bit_depth_minus8 h) (ext_mapping_idc_0_4 h) (ext_mapping_idc_5_7 h)
      (vdr_bit_depth_minus8 h) (spatial_resampling_filter_flag h) (reserved_zero_3bits h)
      (el_spatial_resampling_filter_flag h) (disable_residual_flag h) (vdr_dm_metadata_present_flag h)
      (use_prev_vdr_rpu_flag h) (prev_vdr_rpu_id h).

(* RpuDataHeader::p8_default *)
Definition p8_default_header : header :=
  mkH 2 18 1 0 true false 0 23 23 1 false 2 2 0 0 4 false 0 false true true false 0.

(* VdrDmData::set_p81_coeffs: the values come from the source (Modes_gen.p81_coeffs) *)
Fixpoint set_fields (prog : list fld) (vs : list Z) (kv : list (string * Z)) : list Z :=
  match kv with
  | [] => vs
  | (k, v) :: t => set_fields prog (set_field prog vs k v) t
  end.
Definition set_p81_coeffs (d : dmdata) : dmdata :=
  mkDm (dm_compressed d) (dm_ids d) (set_fields dm_main_prog (dm_main d) p81_coeffs) (cmv29 d) (cmv40 d).

Definition mel_nlq : nlq := mkNlq [0;0;0] [1;1;1] [0;0;0] [0;0;0] [0;0;0] [0;0;0] [0;0;0].

Definition refresh (x : rpu) : rpu :=
  mkRpu (get_dovi_profile (hdr x)) (el_type_of (rmapping x)) (hdr x) (rmapping x) (rdm x)
        (remaining x) (rpu_crc x) (modified x) (trailing_zeroes x).

(* convert_to_mel *)
Definition convert_to_mel (x : rpu) : outcome rpu :=
  let h := hdr_set_el (hdr x) true false in
  match rmapping x with
  | None => Ok (set_hdr x h)
  | Some m =>
      let* q := match mnlq m with
                | Some _ => Ok mel_nlq       (* nlq.convert_to_mel() overwrites every field *)
                | None => if dovi_profile x =? 8 then Ok mel_nlq else Err
                end in
      let m' := mkMap (vdr_rpu_id m) (mapping_color_space m) (mapping_chroma_format_idc m)
                      (num_x_partitions_minus1 m) (num_y_partitions_minus1 m) (curves m)
                      (Some 0) (Some 0) (Some [0; 1023]) (Some q) in
      Ok (with_mapping (set_hdr x h) (Some m'))
  end.

(* convert_to_p81 *)
Definition convert_to_p81 (x : rpu) : rpu :=
  let h := hdr_set_el (hdr x) false true in
  let m := option_map (fun m => mkMap (vdr_rpu_id m) (mapping_color_space m) (mapping_chroma_format_idc m)
                                      0 0 (curves m) None None None None) (rmapping x) in
  mkRpu (dovi_profile x) (el_type x) h m (option_map set_p81_coeffs (rdm x)) (remaining x) (rpu_crc x)
        true (trailing_zeroes x).

Definition convert_to_p81_remove_mapping (x : rpu) : rpu :=
  let y := convert_to_p81 x in
  match el_type x with
  | Some 1 => remove_mapping y        (* FEL *)
  | _ => y
  end.

Definition p5_to_p81 (x : rpu) : outcome rpu :=
  if dovi_profile x =? 5 then
    let y := convert_to_p81 x in
    let y := mkRpu 8 (el_type y) (hdr_set_profile (hdr y) 1 false) (rmapping y) (rdm y) (remaining y)
                   (rpu_crc y) true (trailing_zeroes y) in
    let y := remove_mapping y in
    Ok (with_dm y (option_map set_p81_coeffs (rdm y)) true)
  else Err.

(* Profile84::rpu_data_mapping: constants regenerated from profile84.rs (Modes_gen) *)
Definition p84_mapping : mapping :=
  mkMap 0 0 0 0 0
    [ mkCurve 7 p84_luma_pivots 0 (Some (mkPoly [1;1;1;1;1;1;1;1] [] p84_poly_coef_int p84_poly_coef)) None;
      mkCurve 0 [0; 1023] 1 None (Some (mkMmr [2] [p84_mmr1_constant_int] [p84_mmr1_constant] [p84_mmr1_coef_int] [p84_mmr1_coef]));
      mkCurve 0 [0; 1023] 1 None (Some (mkMmr [2] [p84_mmr2_constant_int] [p84_mmr2_constant] [p84_mmr2_coef_int] [p84_mmr2_coef])) ]
    None None None None.

(* convert_to_p84; `p84_keeps_dm_flags` (regenerated) says whether the new header keeps the
   source's vdr_dm_metadata_present_flag / reserved_zero_3bits *)
Definition convert_to_p84 (x : rpu) : rpu :=
  let y := convert_to_p81 x in
  let h0 := p8_default_header in
  let h := if p84_keeps_dm_flags then
             mkH (rpu_type h0) (rpu_format h0) (vdr_rpu_profile h0) (vdr_rpu_level h0) (vdr_seq_info_present_flag h0)
                 (chroma_resampling_explicit_filter_flag h0) (coefficient_data_type h0) (coefficient_log2_denom h0)
                 (coefficient_log2_denom_length h0) (vdr_rpu_normalized_idc h0) (bl_video_full_range_flag h0)
                 (bl_bit_depth_minus8 h0) (el_bit_depth_minus8 h0) (ext_mapping_idc_0_4 h0) (ext_mapping_idc_5_7 h0)
                 (vdr_bit_depth_minus8 h0) (spatial_resampling_filter_flag h0) (reserved_zero_3bits (hdr x))
                 (el_spatial_resampling_filter_flag h0) (disable_residual_flag h0)
                 (vdr_dm_metadata_present_flag (hdr x)) (use_prev_vdr_rpu_flag h0) (prev_vdr_rpu_id h0)
           else h0 in
  mkRpu (dovi_profile y) (el_type y) h (Some p84_mapping) (rdm y) (remaining y) (rpu_crc y) true (trailing_zeroes y).

(* ConversionMode: 0 Lossless, 1 ToMel, 2 To81, 3 To84, 4 To81MappingPreserved (enum discriminants) *)
Definition convert_with_mode (x : rpu) (mode : N) : outcome rpu :=
  let x := if mode =? 0 then x else set_modified x in
  let p := dovi_profile x in
  let* y :=
    if mode =? 0 then Ok x
    else if mode =? 1 then (if (p =? 7) || (p =? 8) then convert_to_mel x else Err)
    else if mode =? 2 then (if (p =? 7) || (p =? 8) then Ok (convert_to_p81_remove_mapping x)
                            else if p =? 5 then p5_to_p81 x else Err)
    else if mode =? 3 then Ok (convert_to_p84 x)
    else if mode =? 4 then (if (p =? 7) || (p =? 8) then Ok (convert_to_p81 x) else Err)
    else Err in
  Ok (refresh y).

(* From<u8> for ConversionMode and the CLI enum (regenerated tables) *)
Definition mode_of_u8 (n : N) : N :=
  match find (fun p => fst p =? n) mode_from_u8 with
  | Some (_, m) => m
  | None => mode_from_u8_default
  end.
Definition mode_of_cli (n : N) : option N :=
  option_map snd (find (fun p => fst p =? n) mode_from_cli).
