(* C01: the mapping (pivots, polynomial / MMR pieces, NLQ), read then written, reproduces exactly
   the bits that were read. *)
From Coq Require Import List NArith ZArith Lia Bool String.
From DV Require Import Outcome Bits BitIO Fields Tables FieldsProofs Rpu HeaderRT.
Import ListNotations.
Open Scope N_scope.
Local Open Scope out_scope.

Definition se_small (v : Z) : Prop := (Z.abs v < Z.of_N two52)%Z.
Definition coef_small (c : option Z * N) : Prop := match fst c with Some v => se_small v | None => True end.

Lemma ints_of_cons c t : ints_of (c :: t) = match fst c with Some v => [v] | None => [] end ++ ints_of t.
Proof. reflexivity. Qed.

Lemma small_coefs cs : Forall se_small (ints_of cs) -> Forall coef_small cs.
Proof.
  induction cs as [|c t IH]; intros H; [constructor|]. rewrite ints_of_cons in H.
  unfold coef_small at 1. destruct (fst c) as [v|] eqn:E; cbn [app] in H.
  - inversion H; subst. constructor; [unfold coef_small; rewrite E; assumption|auto].
  - constructor; [unfold coef_small; rewrite E; exact I|auto].
Qed.

Section Coefs.
  Context (h : header).
  Let t0 := coefficient_data_type h =? 0.
  Let len := coefficient_log2_denom_length h.

  Lemma get_coef_rt r c r' : get_coef Debug h r = Ok (c, r') -> coef_small c ->
    (if t0 then exists v, fst c = Some v else fst c = None) /\
    exists bs, consumed r r' bs /\
      forall p w, (let* w1 := if t0 then match fst c with Some v => write_se p v w | None => Ok w end else Ok w in
                   write_n 64 len (snd c) w1) = Ok (wput w bs).
  Proof.
    unfold get_coef. fold t0. fold len. intros H Hs. destruct t0 eqn:Et.
    - destruct (get_se Debug r) as [[v r1]| |s] eqn:Es; cbn [bind] in H; try discriminate.
      destruct (get_n 64 len r1) as [[x r2]| |s] eqn:En; cbn [bind] in H; try discriminate.
      inversion H; subst c r'. clear H. cbn [fst snd] in *.
      apply get_se_rt in Es; [|exact Hs]. destruct Es as (b1 & Hc1 & Hw1).
      apply get_n_rt in En. destruct En as (b2 & Hc2 & Hw2).
      split; [eexists; reflexivity|]. exists (b1 ++ b2). split; [eapply consumed_trans; eassumption|].
      intros p w. rewrite Hw1. cbn [bind]. rewrite Hw2, wput_app. reflexivity.
    - cbn [bind] in H.
      destruct (get_n 64 len r) as [[x r2]| |s] eqn:En; cbn [bind] in H; try discriminate.
      inversion H; subst c r'. clear H. cbn [fst snd] in *.
      apply get_n_rt in En. destruct En as (b2 & Hc2 & Hw2).
      split; [reflexivity|]. exists b2. split; [exact Hc2|]. intros p w. cbn [bind]. apply Hw2.
  Qed.


  (* k coefficients: the writer, started at index j of lists that hold these coefficients from j on *)
  Lemma get_coefs_rt k : forall r cs r', get_coefs Debug h k r = Ok (cs, r') -> Forall coef_small cs ->
    List.length cs = k /\
    exists bs, consumed r r' bs /\
      forall p w ipre fpre isuf fsuf, (t0 = true -> List.length ipre = List.length fpre) ->
        write_coefs p h (ipre ++ ints_of cs ++ isuf) (fpre ++ fracs_of cs ++ fsuf) (List.length fpre) k w
        = Ok (wput w bs).
  Proof.
    induction k as [|k IH]; intros r cs r' H Hs; cbn [get_coefs] in H.
    - inversion H; subst. split; [reflexivity|]. exists []. split; [apply consumed_nil|].
      intros. cbn [write_coefs]. rewrite wput_nil. reflexivity.
    - destruct (get_coef Debug h r) as [[c r1]| |s] eqn:Ec; cbn [bind] in H; try discriminate.
      destruct (get_coefs Debug h k r1) as [[t r2]| |s] eqn:Et; cbn [bind] in H; try discriminate.
      inversion H; subst cs r'. clear H. inversion Hs as [|? ? Hc Ht]; subst.
      destruct (get_coef_rt _ _ _ Ec Hc) as (Hshape & b1 & Hc1 & Hw1).
      destruct (IH _ _ _ Et Ht) as (Hlen & b2 & Hc2 & Hw2).
      split; [cbn; lia|]. exists (b1 ++ b2). split; [eapply consumed_trans; eassumption|].
      intros p w ipre fpre isuf fsuf Hal. cbn [write_coefs]. fold t0. fold len.
      unfold nth_or_panic.
      assert (Hf : nth_error (fpre ++ fracs_of (c :: t) ++ fsuf) (List.length fpre) = Some (snd c)).
      { rewrite nth_error_app2 by lia. rewrite Nat.sub_diag. reflexivity. }
      rewrite Hf. cbn [bind].
      specialize (Hw1 p w). fold t0 in Hshape.
      destruct t0 eqn:Et0.
      + destruct Hshape as [v Hv]. rewrite ints_of_cons, Hv. cbn [app].
        assert (Hi : nth_error (ipre ++ v :: ints_of t ++ isuf) (List.length fpre) = Some v).
        { rewrite <- (Hal eq_refl). rewrite nth_error_app2 by lia. rewrite Nat.sub_diag. reflexivity. }
        rewrite Hi. cbn [bind]. rewrite Hv in Hw1.
        destruct (write_se p v w) as [w1| |s]; cbn [bind] in Hw1 |- *; try discriminate.
        rewrite Hw1. cbn [bind].
        specialize (Hw2 p (wput w b1) (ipre ++ [v]) (fpre ++ [snd c]) isuf fsuf).
        rewrite !app_length in Hw2. cbn [List.length] in Hw2.
        replace (List.length fpre + 1)%nat with (S (List.length fpre)) in Hw2 by lia.
        rewrite <- !app_assoc in Hw2. cbn [app] in Hw2.
        change (fracs_of (c :: t)) with (snd c :: fracs_of t). cbn [app].
        rewrite Hw2 by (intros _; specialize (Hal eq_refl); lia). rewrite wput_app. reflexivity.
      + rewrite ints_of_cons, Hshape. cbn [app bind] in Hw1 |- *. rewrite Hw1. cbn [bind].
        specialize (Hw2 p (wput w b1) ipre (fpre ++ [snd c]) isuf fsuf).
        rewrite !app_length in Hw2. cbn [List.length] in Hw2.
        replace (List.length fpre + 1)%nat with (S (List.length fpre)) in Hw2 by lia.
        rewrite <- !app_assoc in Hw2. cbn [app] in Hw2.
        change (fracs_of (c :: t)) with (snd c :: fracs_of t). cbn [app].
        rewrite Hw2 by (intros; discriminate). rewrite wput_app. reflexivity.
  Qed.
  Lemma ints_of_nil k : forall r cs r', t0 = false -> get_coefs Debug h k r = Ok (cs, r') -> ints_of cs = [].
  Proof.
    induction k as [|k IH]; intros r cs r' Et Ec; cbn [get_coefs] in Ec; [inversion Ec; reflexivity|].
    destruct (get_coef Debug h r) as [[c ra]| |s] eqn:E1; cbn [bind] in Ec; try discriminate.
    destruct (get_coefs Debug h k ra) as [[t rb]| |s] eqn:E2; cbn [bind] in Ec; try discriminate.
    inversion Ec; subst. rewrite ints_of_cons, (IH _ _ _ Et E2).
    unfold get_coef in E1. fold t0 in E1. rewrite Et in E1. cbn [bind] in E1.
    destruct (get_n 64 _ r) as [[x rc]| |s]; cbn [bind] in E1; try discriminate. inversion E1. reflexivity.
  Qed.

  Lemma write_coefs_ints_irrelevant p : t0 = false -> forall k w j fr i1 i2,
    write_coefs p h i1 fr j k w = write_coefs p h i2 fr j k w.
  Proof.
    intros Et. induction k as [|k IH]; intros w j fr i1 i2; cbn [write_coefs]; [reflexivity|].
    fold t0. rewrite Et. cbn [bind]. destruct (nth_or_panic fr j) as [f| |s]; cbn [bind]; try reflexivity.
    destruct (write_n 64 _ f w) as [w1| |s]; cbn [bind]; try reflexivity.
    apply IH.
  Qed.

  (* a whole coefficient list written from index 0 of exactly its own lists *)
  Lemma get_coefs_rt0 k r cs r' : get_coefs Debug h k r = Ok (cs, r') -> Forall se_small (ints_of cs) ->
    exists bs, consumed r r' bs /\
      forall p w ints, (t0 = true -> ints = ints_of cs) -> write_coefs p h ints (fracs_of cs) 0 k w = Ok (wput w bs).
  Proof.
    intros Ec Hs. destruct (get_coefs_rt k _ _ _ Ec (small_coefs _ Hs)) as (Hlen & bs & Hc & Hw).
    exists bs. split; [exact Hc|]. intros p w ints Hi.
    destruct t0 eqn:Et.
    - rewrite (Hi eq_refl). specialize (Hw p w [] [] [] []). cbn [app List.length] in Hw.
      rewrite !app_nil_r in Hw. apply Hw. reflexivity.
    - (* the integer parts are never read *)
      specialize (Hw p w [] [] [] []). cbn [app List.length] in Hw. rewrite !app_nil_r in Hw.
      rewrite <- (Hw ltac:(intros; reflexivity)). apply write_coefs_ints_irrelevant. exact Et.
  Qed.
End Coefs.

(* ------------------------------------------------------------- list extension *)
Definition lext {A} (a b : list A) : Prop := forall i x, nth_error a i = Some x -> nth_error b i = Some x.
Lemma lext_refl {A} (a : list A) : lext a a. Proof. intros i x H; exact H. Qed.
Lemma lext_trans {A} (a b c : list A) : lext a b -> lext b c -> lext a c.
Proof. intros H1 H2 i x H. apply H2, H1, H. Qed.
Lemma lext_app {A} (a s : list A) : lext a (a ++ s).
Proof. intros i x H. rewrite nth_error_app1; [exact H|]. apply nth_error_Some. congruence. Qed.
Lemma nth_error_snoc {A} (a : list A) x : nth_error (a ++ [x]) (List.length a) = Some x.
Proof. rewrite nth_error_app2 by lia. rewrite Nat.sub_diag. reflexivity. Qed.
Lemma lext_in {A} (a b : list A) x : lext a b -> In x a -> In x b.
Proof. intros H Hin. apply In_nth_error in Hin. destruct Hin as [i Hi]. eapply nth_error_In. apply H. exact Hi. Qed.


Definition poly_ext (a b : poly_curve) : Prop :=
  lext (poly_order_minus1 a) (poly_order_minus1 b) /\ lext (linear_interp_flag a) (linear_interp_flag b) /\
  lext (poly_coef_int a) (poly_coef_int b) /\ lext (poly_coef a) (poly_coef b).
Definition mmr_ext (a b : mmr_curve) : Prop :=
  lext (mmr_order_minus1 a) (mmr_order_minus1 b) /\ lext (mmr_constant_int a) (mmr_constant_int b) /\
  lext (mmr_constant a) (mmr_constant b) /\ lext (mmr_coef_int a) (mmr_coef_int b) /\ lext (mmr_coef a) (mmr_coef b).

Lemma poly_ext_refl a : poly_ext a a. Proof. repeat split; apply lext_refl. Qed.
Lemma poly_ext_trans a b c : poly_ext a b -> poly_ext b c -> poly_ext a c.
Proof. intros (A1 & A2 & A3 & A4) (B1 & B2 & B3 & B4). repeat split; eapply lext_trans; eassumption. Qed.
Lemma mmr_ext_refl a : mmr_ext a a. Proof. repeat split; apply lext_refl. Qed.
Lemma mmr_ext_trans a b c : mmr_ext a b -> mmr_ext b c -> mmr_ext a c.
Proof. intros (A1 & A2 & A3 & A4 & A5) (B1 & B2 & B3 & B4 & B5). repeat split; eapply lext_trans; eassumption. Qed.

Section Pieces.
  Context (h : header) (mb ib : bool).
  Let t0 := coefficient_data_type h =? 0.
  Let len := coefficient_log2_denom_length h.

  (* ---- polynomial piece ---- *)
  Lemma poly_piece_shape pc r pc' r' : parse_poly_piece Debug h ib pc r = Ok (pc', r') ->
    exists order interp cs,
      pc' = mkPoly (poly_order_minus1 pc ++ [order]) (linear_interp_flag pc ++ [interp])
                   (poly_coef_int pc ++ [ints_of cs]) (poly_coef pc ++ [fracs_of cs]).
  Proof.
    unfold parse_poly_piece. intros H.
    destruct (get_ue Debug r) as [[order r1]| |s]; cbn [bind] in H; try discriminate.
    destruct (order <=? 1); cbn [ensure bind] in H; [|discriminate].
    destruct (if order =? 0 then get r1 else Ok (false, r1)) as [[interp r2]| |s]; cbn [bind] in H; try discriminate.
    destruct ((order =? 0) && interp); [destruct ib; discriminate|].
    destruct (get_coefs Debug h (N.to_nat order + 2) r2) as [[cs r3]| |s]; cbn [bind] in H; try discriminate.
    inversion H. eauto.
  Qed.

  Lemma poly_piece_rt pc r pc' r' i : parse_poly_piece Debug h ib pc r = Ok (pc', r') ->
    List.length (poly_order_minus1 pc) = i -> List.length (linear_interp_flag pc) = i ->
    List.length (poly_coef_int pc) = i -> List.length (poly_coef pc) = i ->
    (forall l, nth_error (poly_coef_int pc') i = Some l -> Forall se_small l) ->
    exists bs, consumed r r' bs /\
      forall X, poly_ext pc' X -> forall p wb w, write_poly_piece p h wb X i w = Ok (wput w bs).
  Proof.
    unfold parse_poly_piece. intros H L1 L2 L3 L4 Hs.
    destruct (get_ue Debug r) as [[order r1]| |s] eqn:Eo; cbn [bind] in H; try discriminate.
    destruct (order <=? 1) eqn:Ele; cbn [ensure bind] in H; [|discriminate].
    apply get_ue_rt in Eo. destruct Eo as (b1 & Hc1 & Hw1).
    destruct (order =? 0) eqn:E0.
    - destruct (get r1) as [[interp r2]| |s] eqn:Eg; cbn [bind] in H; try discriminate.
      apply get_rt in Eg.
      destruct interp; cbn [andb] in H; [destruct ib; discriminate|].
      destruct (get_coefs Debug h (N.to_nat order + 2) r2) as [[cs r3]| |s] eqn:Ec; cbn [bind] in H; try discriminate.
      inversion H; subst pc' r'. clear H. cbn [poly_coef_int] in Hs.
      specialize (Hs (ints_of cs)). rewrite <- L3 in Hs. specialize (Hs (nth_error_snoc _ _)).
      destruct (get_coefs_rt h _ _ _ _ Ec (small_coefs _ Hs)) as (Hlen & b3 & Hc3 & Hw3).
      exists (b1 ++ [false] ++ b3). split.
      { eapply consumed_trans; [exact Hc1|]. eapply consumed_trans; [exact Eg|exact Hc3]. }
      intros X (X1 & X2 & X3 & X4) p wb w. cbn [poly_order_minus1 linear_interp_flag poly_coef_int poly_coef] in *.
      unfold write_poly_piece, nth_or_panic.
      rewrite (X1 i order) by (rewrite <- L1; apply nth_error_snoc). cbn [bind].
      rewrite Hw1. cbn [bind]. rewrite E0.
      rewrite (X2 i false) by (rewrite <- L2; apply nth_error_snoc). cbn [bind andb]. unfold write_bit. cbn [bind].
      rewrite (X4 i (fracs_of cs)) by (rewrite <- L4; apply nth_error_snoc).
      fold t0. destruct t0 eqn:Et0.
      + rewrite (X3 i (ints_of cs)) by (rewrite <- L3; apply nth_error_snoc). cbn [bind].
        specialize (Hw3 p (wput (wput w b1) [false]) [] [] [] []). cbn [app List.length] in Hw3.
        rewrite !app_nil_r in Hw3. rewrite Hw3 by reflexivity. rewrite !wput_app. reflexivity.
      + cbn [bind].
        specialize (Hw3 p (wput (wput w b1) [false]) [] [] [] []). cbn [app List.length] in Hw3.
        rewrite !app_nil_r in Hw3.
        assert (Hnil : ints_of cs = []).
        { clear -Ec Et0. revert Ec. generalize (N.to_nat order + 2)%nat. intros k. revert r2 cs r3.
          induction k as [|k IH]; intros r2 cs r3 Ec; cbn [get_coefs] in Ec; [inversion Ec; reflexivity|].
          destruct (get_coef Debug h r2) as [[c ra]| |s] eqn:E1; cbn [bind] in Ec; try discriminate.
          destruct (get_coefs Debug h k ra) as [[t rb]| |s] eqn:E2; cbn [bind] in Ec; try discriminate.
          inversion Ec; subst. rewrite ints_of_cons, (IH _ _ _ E2).
          unfold get_coef in E1. fold t0 in E1. rewrite Et0 in E1. cbn [bind] in E1.
          destruct (get_n 64 _ r2) as [[x rc]| |s]; cbn [bind] in E1; try discriminate. inversion E1. reflexivity. }
        rewrite Hnil in Hw3. rewrite Hw3 by (intros; reflexivity). rewrite !wput_app. reflexivity.
    - cbn [bind andb] in H.
      destruct (get_coefs Debug h (N.to_nat order + 2) r1) as [[cs r3]| |s] eqn:Ec; cbn [bind] in H; try discriminate.
      inversion H; subst pc' r'. clear H. cbn [poly_coef_int] in Hs.
      specialize (Hs (ints_of cs)). rewrite <- L3 in Hs. specialize (Hs (nth_error_snoc _ _)).
      destruct (get_coefs_rt h _ _ _ _ Ec (small_coefs _ Hs)) as (Hlen & b3 & Hc3 & Hw3).
      exists (b1 ++ b3). split; [eapply consumed_trans; eassumption|].
      intros X (X1 & X2 & X3 & X4) p wb w. cbn [poly_order_minus1 linear_interp_flag poly_coef_int poly_coef] in *.
      unfold write_poly_piece, nth_or_panic.
      rewrite (X1 i order) by (rewrite <- L1; apply nth_error_snoc). cbn [bind].
      rewrite Hw1. cbn [bind]. rewrite E0. cbn [bind andb].
      rewrite (X4 i (fracs_of cs)) by (rewrite <- L4; apply nth_error_snoc).
      fold t0. destruct t0 eqn:Et0.
      + rewrite (X3 i (ints_of cs)) by (rewrite <- L3; apply nth_error_snoc). cbn [bind].
        specialize (Hw3 p (wput w b1) [] [] [] []). cbn [app List.length] in Hw3.
        rewrite !app_nil_r in Hw3. rewrite Hw3 by reflexivity. rewrite !wput_app. reflexivity.
      + cbn [bind].
        specialize (Hw3 p (wput w b1) [] [] [] []). cbn [app List.length] in Hw3.
        rewrite !app_nil_r in Hw3.
        assert (Hnil : ints_of cs = []).
        { clear -Ec Et0. revert Ec. generalize (N.to_nat order + 2)%nat. intros k. revert r1 cs r3.
          induction k as [|k IH]; intros r1 cs r3 Ec; cbn [get_coefs] in Ec; [inversion Ec; reflexivity|].
          destruct (get_coef Debug h r1) as [[c ra]| |s] eqn:E1; cbn [bind] in Ec; try discriminate.
          destruct (get_coefs Debug h k ra) as [[t rb]| |s] eqn:E2; cbn [bind] in Ec; try discriminate.
          inversion Ec; subst. rewrite ints_of_cons, (IH _ _ _ E2).
          unfold get_coef in E1. fold t0 in E1. rewrite Et0 in E1. cbn [bind] in E1.
          destruct (get_n 64 _ r1) as [[x rc]| |s]; cbn [bind] in E1; try discriminate. inversion E1. reflexivity. }
        rewrite Hnil in Hw3. rewrite Hw3 by (intros; reflexivity). rewrite !wput_app. reflexivity.
  Qed.

  Lemma write_mmr_rows_ints_irrelevant p : t0 = false -> forall k w j fr i1 i2,
    write_mmr_rows p h i1 fr j k w = write_mmr_rows p h i2 fr j k w.
  Proof.
    intros Et. induction k as [|k IH]; intros w j fr i1 i2; cbn [write_mmr_rows]; [reflexivity|].
    fold t0. rewrite Et. cbn [bind]. destruct (nth_or_panic fr j) as [f| |s]; cbn [bind]; try reflexivity.
    destruct (write_coefs p h [] f 0 7 w) as [w1| |s]; cbn [bind]; try reflexivity.
    apply IH.
  Qed.

  (* ---- MMR piece ---- *)
  Lemma mmr_rows_rt k : forall r rows r', get_mmr_rows Debug h k r = Ok (rows, r') ->
    (forall row, In row rows -> Forall se_small (ints_of row)) ->
    exists bs, consumed r r' bs /\
      forall p w ipre fpre isuf fsuf, (t0 = true -> List.length ipre = List.length fpre) ->
        write_mmr_rows p h (ipre ++ map ints_of rows ++ isuf) (fpre ++ map fracs_of rows ++ fsuf)
                       (List.length fpre) k w = Ok (wput w bs).
  Proof.
    induction k as [|k IH]; intros r rows r' H Hs; cbn [get_mmr_rows] in H.
    - inversion H; subst. exists []. split; [apply consumed_nil|]. intros. cbn [write_mmr_rows]. rewrite wput_nil. reflexivity.
    - destruct (get_coefs Debug h 7 r) as [[row r1]| |s] eqn:Er; cbn [bind] in H; try discriminate.
      destruct (get_mmr_rows Debug h k r1) as [[t r2]| |s] eqn:Et; cbn [bind] in H; try discriminate.
      inversion H; subst rows r'. clear H.
      destruct (get_coefs_rt0 h 7 _ _ _ Er (Hs row (or_introl eq_refl))) as (b1 & Hc1 & Hw1).
      destruct (IH _ _ _ Et (fun x Hx => Hs x (or_intror Hx))) as (b2 & Hc2 & Hw2).
      exists (b1 ++ b2). split; [eapply consumed_trans; eassumption|].
      intros p w ipre fpre isuf fsuf Hal. cbn [write_mmr_rows map]. fold t0. unfold nth_or_panic.
      assert (Hf : nth_error (fpre ++ (fracs_of row :: map fracs_of t) ++ fsuf) (List.length fpre) = Some (fracs_of row)).
      { rewrite nth_error_app2 by lia. rewrite Nat.sub_diag. reflexivity. }
      rewrite Hf.
      assert (Hirow : (if t0 then match nth_error (ipre ++ (ints_of row :: map ints_of t) ++ isuf) (List.length fpre) with
                                  | Some x => Ok x | None => Panic site_write_index end else Ok [])
                      = Ok (if t0 then ints_of row else [])).
      { destruct t0 eqn:E; [|reflexivity]. rewrite <- (Hal eq_refl). rewrite nth_error_app2 by lia.
        rewrite Nat.sub_diag. reflexivity. }
      rewrite Hirow. cbn [bind].
      rewrite (Hw1 p w (if t0 then ints_of row else [])) by (fold t0; intros ->; reflexivity). cbn [bind].
      specialize (Hw2 p (wput w b1) (ipre ++ [ints_of row]) (fpre ++ [fracs_of row]) isuf fsuf).
      rewrite !app_length in Hw2. cbn [List.length] in Hw2.
      replace (List.length fpre + 1)%nat with (S (List.length fpre)) in Hw2 by lia.
      rewrite <- !app_assoc in Hw2. cbn [app] in Hw2 |- *.
      rewrite Hw2 by (intros E; specialize (Hal E); lia). rewrite wput_app. reflexivity.
  Qed.

  Lemma mmr_piece_rt mc r mc' r' i : parse_mmr_piece Debug h mc r = Ok (mc', r') ->
    List.length (mmr_order_minus1 mc) = i -> (t0 = true -> List.length (mmr_constant_int mc) = i) ->
    List.length (mmr_constant mc) = i -> List.length (mmr_coef_int mc) = i -> List.length (mmr_coef mc) = i ->
    (forall v, t0 = true -> nth_error (mmr_constant_int mc') i = Some v -> se_small v) ->
    (forall rows, nth_error (mmr_coef_int mc') i = Some rows -> forall l, In l rows -> Forall se_small l) ->
    exists bs, consumed r r' bs /\
      forall X, mmr_ext mc' X -> forall p w, write_mmr_piece p h X i w = Ok (wput w bs).
  Proof.
    unfold parse_mmr_piece. intros H L1 L2 L3 L4 L5 Hs1 Hs2.
    destruct (get_n 8 2 r) as [[order r1]| |s] eqn:Eo; cbn [bind] in H; try discriminate.
    destruct (order <=? 2) eqn:Ele; cbn [ensure bind] in H; [|discriminate].
    apply get_n_rt in Eo. destruct Eo as (b1 & Hc1 & Hw1).
    destruct (get_coef Debug h r1) as [[[ci c] r2]| |s] eqn:Ec; cbn [bind] in H; try discriminate.
    destruct (get_mmr_rows Debug h (N.to_nat order + 1) r2) as [[rows r3]| |s] eqn:Er; cbn [bind] in H; try discriminate.
    inversion H; subst mc' r'. clear H. cbn [mmr_constant_int mmr_coef_int] in Hs1, Hs2.
    assert (Hcs : coef_small (ci, c)).
    { unfold coef_small. cbn [fst]. destruct ci as [v|]; [|exact I].
      destruct t0 eqn:Et.
      - apply Hs1; [reflexivity|]. rewrite <- (L2 eq_refl). apply nth_error_snoc.
      - exfalso. unfold get_coef in Ec. fold t0 in Ec. rewrite Et in Ec. cbn [bind] in Ec.
        destruct (get_n 64 _ r1) as [[x rc]| |s]; cbn [bind] in Ec; discriminate. }
    destruct (get_coef_rt h _ _ _ Ec Hcs) as (Hshape & b2 & Hc2 & Hw2). fold t0 in Hshape, Hw2. cbn [fst snd] in Hshape, Hw2.
    assert (Hrs : forall row, In row rows -> Forall se_small (ints_of row)).
    { intros row Hin. apply (Hs2 (map ints_of rows)); [rewrite <- L4; apply nth_error_snoc|]. apply in_map. exact Hin. }
    destruct (mmr_rows_rt _ _ _ _ Er Hrs) as (b3 & Hc3 & Hw3).
    exists (b1 ++ b2 ++ b3). split.
    { eapply consumed_trans; [exact Hc1|]. eapply consumed_trans; eassumption. }
    intros X (X1 & X2 & X3 & X4 & X5) p w. cbn [mmr_order_minus1 mmr_constant_int mmr_constant mmr_coef_int mmr_coef] in *.
    unfold write_mmr_piece, nth_or_panic. fold t0.
    rewrite (X1 i order) by (rewrite <- L1; apply nth_error_snoc). cbn [bind].
    rewrite Hw1. cbn [bind].
    rewrite (X3 i c) by (rewrite <- L3; apply nth_error_snoc).
    rewrite (X5 i (map fracs_of rows)) by (rewrite <- L5; apply nth_error_snoc).
    specialize (Hw2 p (wput w b1)).
    destruct t0 eqn:Et.
    - destruct Hshape as [v ->]. cbn [app] in X2.
      rewrite (X2 i v) by (rewrite <- (L2 eq_refl); apply nth_error_snoc). cbn [bind].
      destruct (write_se p v (wput w b1)) as [w1| |s]; cbn [bind] in Hw2 |- *; try discriminate.
      rewrite Hw2. cbn [bind].
      rewrite (X4 i (map ints_of rows)) by (rewrite <- L4; apply nth_error_snoc). cbn [bind].
      specialize (Hw3 p (wput (wput w b1) b2) [] [] [] []). cbn [app List.length] in Hw3. rewrite !app_nil_r in Hw3.
      rewrite Hw3 by reflexivity. rewrite !wput_app. reflexivity.
    - cbn [bind] in Hw2 |- *. rewrite Hw2. cbn [bind].
      specialize (Hw3 p (wput (wput w b1) b2) [] [] [] []). cbn [app List.length] in Hw3. rewrite !app_nil_r in Hw3.
      (* the integer rows are never read *)
      rewrite <- (write_mmr_rows_ints_irrelevant p Et _ _ _ _ (map ints_of rows) []).
      rewrite Hw3 by (intros; reflexivity). rewrite !wput_app. reflexivity.
  Qed.
End Pieces.

(* ------------------------------------------------------------- the pieces of one curve *)
Section Curve.
  Context (h : header) (mb ib : bool).
  Let t0 := coefficient_data_type h =? 0.

  (* the curve after i pieces of one method: struct-of-arrays, every array i long *)
  Definition pinv (c : curve) (i : nat) : Prop :=
    (polynomial c = None /\ mmr c = None /\ i = 0%nat) \/
    (exists pc, polynomial c = Some pc /\ mmr c = None /\ mapping_idc c = 0 /\
                List.length (poly_order_minus1 pc) = i /\ List.length (linear_interp_flag pc) = i /\
                List.length (poly_coef_int pc) = i /\ List.length (poly_coef pc) = i) \/
    (exists mc, polynomial c = None /\ mmr c = Some mc /\ mapping_idc c = 1 /\
                List.length (mmr_order_minus1 mc) = i /\ (t0 = true -> List.length (mmr_constant_int mc) = i) /\
                List.length (mmr_constant mc) = i /\ List.length (mmr_coef_int mc) = i /\
                List.length (mmr_coef mc) = i).

  (* X holds (at least) the pieces of c, with the same single method *)
  Definition cext (c X : curve) : Prop :=
    (forall a, polynomial c = Some a ->
       exists b, polynomial X = Some b /\ poly_ext a b /\ mmr X = None /\ mapping_idc X = 0) /\
    (forall a, mmr c = Some a ->
       exists b, mmr X = Some b /\ mmr_ext a b /\ polynomial X = None /\ mapping_idc X = 1).

  Definition curve_small (X : curve) : Prop :=
    (forall b, polynomial X = Some b -> forall l, In l (poly_coef_int b) -> Forall se_small l) /\
    (forall b, mmr X = Some b -> Forall se_small (mmr_constant_int b) /\
                                 forall rows, In rows (mmr_coef_int b) -> forall l, In l rows -> Forall se_small l).

  Lemma cext_refl c i : pinv c i -> cext c c.
  Proof.
    intros [(H1 & H2 & _)|[(pc & H1 & H2 & H3 & _)|(mc & H1 & H2 & H3 & _)]]; split; intros a Ha; try congruence.
    - exists a. split; [exact Ha|]. split; [apply poly_ext_refl|]. split; assumption.
    - exists a. split; [exact Ha|]. split; [apply mmr_ext_refl|]. split; assumption.
  Qed.

  Lemma cext_trans a b c : cext a b -> cext b c -> cext a c.
  Proof.
    intros [A1 A2] [B1 B2]. split; intros x Hx.
    - destruct (A1 x Hx) as (y & Hy & Hxy & _ & _). destruct (B1 y Hy) as (z & Hz & Hyz & Hm & Hi).
      exists z. split; [exact Hz|]. split; [eapply poly_ext_trans; eassumption|]. split; assumption.
    - destruct (A2 x Hx) as (y & Hy & Hxy & _ & _). destruct (B2 y Hy) as (z & Hz & Hyz & Hm & Hi).
      exists z. split; [exact Hz|]. split; [eapply mmr_ext_trans; eassumption|]. split; assumption.
  Qed.

  (* once a method is present it stays present *)
  Lemma pieces_monotone fuel : forall k c r c' r',
    parse_pieces Debug h mb ib fuel k c r = Ok (c', r') ->
    (polynomial c <> None -> polynomial c' <> None) /\ (mmr c <> None -> mmr c' <> None) /\
    num_pivots_minus2 c' = num_pivots_minus2 c /\ pivots c' = pivots c.
  Proof.
    induction fuel as [|f IH]; intros k c r c' r' H; cbn [parse_pieces] in H.
    - destruct (k =? 0); [inversion H; subst; auto|discriminate].
    - destruct (k =? 0); [inversion H; subst; auto|].
      destruct (get_ue Debug r) as [[idc r1]| |s]; cbn [bind] in H; try discriminate.
      destruct (2 <=? idc); [destruct mb; discriminate|].
      destruct (idc =? 0).
      + destruct (parse_poly_piece _ _ _ _ r1) as [[pc' r2]| |s]; cbn [bind] in H; try discriminate.
        apply IH in H. cbn [polynomial mmr num_pivots_minus2 pivots] in H.
        destruct H as (H1 & H2 & H3 & H4). repeat split; auto. intros _. apply H1. discriminate.
      + destruct (parse_mmr_piece _ _ _ r1) as [[mc' r2]| |s]; cbn [bind] in H; try discriminate.
        apply IH in H. cbn [polynomial mmr num_pivots_minus2 pivots] in H.
        destruct H as (H1 & H2 & H3 & H4). repeat split; auto. intros _. apply H2. discriminate.
  Qed.

  Lemma pieces_rt fuel : forall k c r c' r' i,
    parse_pieces Debug h mb ib fuel k c r = Ok (c', r') ->
    pinv c i -> curve_consistent c' = true -> curve_small c' ->
    exists bs, consumed r r' bs /\ pinv c' (i + N.to_nat k) /\ cext c c' /\
      forall X, cext c' X -> forall p wb w, write_pieces p h wb X i (N.to_nat k) w = Ok (wput w bs).
  Proof.
    induction fuel as [|f IH]; intros k c r c' r' i H Hinv Hcons Hsmall; cbn [parse_pieces] in H.
    - destruct (k =? 0) eqn:Ek; [|discriminate]. apply N.eqb_eq in Ek. subst k. inversion H; subst c' r'.
      exists []. split; [apply consumed_nil|]. split; [rewrite Nat.add_0_r; exact Hinv|]. split; [eapply cext_refl; exact Hinv|].
      intros. cbn [N.to_nat write_pieces]. rewrite wput_nil. reflexivity.
    - destruct (k =? 0) eqn:Ek.
      { apply N.eqb_eq in Ek. subst k. inversion H; subst c' r'.
        exists []. split; [apply consumed_nil|]. split; [rewrite Nat.add_0_r; exact Hinv|]. split; [eapply cext_refl; exact Hinv|].
        intros. cbn [N.to_nat write_pieces]. rewrite wput_nil. reflexivity. }
      apply N.eqb_neq in Ek.
      assert (Hk : N.to_nat k = S (N.to_nat (k - 1))) by lia.
      destruct (get_ue Debug r) as [[idc r1]| |s] eqn:Eu; cbn [bind] in H; try discriminate.
      apply get_ue_rt in Eu. destruct Eu as (b0 & Hc0 & Hw0).
      destruct (2 <=? idc) eqn:E2; [destruct mb; discriminate|].
      destruct (idc =? 0) eqn:E0.
      + (* a polynomial piece *)
        apply N.eqb_eq in E0. subst idc.
        destruct (parse_poly_piece Debug h ib _ r1) as [[pc' r2]| |s] eqn:Ep; cbn [bind] in H; try discriminate.
        set (pc := match polynomial c with Some x => x | None => empty_poly end) in *.
        set (c1 := mkCurve (num_pivots_minus2 c) (pivots c) 0 (Some pc') (mmr c)) in *.
        destruct (pieces_monotone _ _ _ _ _ _ H) as (Hm1 & Hm2 & _ & _).
        assert (Hmn : mmr c = None).
        { destruct (mmr c) as [mc|] eqn:Em; [|reflexivity]. exfalso.
          assert (Hp' : polynomial c' <> None) by (apply Hm1; discriminate).
          assert (Hq' : mmr c' <> None) by (apply Hm2; unfold c1; cbn [mmr]; try rewrite Em; discriminate).
          unfold curve_consistent in Hcons. destruct (polynomial c'); [|congruence]. destruct (mmr c'); [discriminate|congruence]. }
        assert (Hlens : List.length (poly_order_minus1 pc) = i /\ List.length (linear_interp_flag pc) = i /\
                        List.length (poly_coef_int pc) = i /\ List.length (poly_coef pc) = i).
        { destruct Hinv as [(H1 & _ & ->)|[(pc0 & H1 & _ & _ & L)|(mc & _ & H2 & _)]]; [| |congruence].
          - unfold pc. rewrite H1. cbn. auto.
          - unfold pc. rewrite H1. exact L. }
        destruct Hlens as (L1 & L2 & L3 & L4).
        destruct (poly_piece_shape h ib _ _ _ _ Ep) as (order & interp & cs & Hshape).
        assert (Hinv1 : pinv c1 (S i)).
        { right; left. exists pc'. unfold c1. cbn [polynomial mmr mapping_idc]. repeat split; auto;
            rewrite Hshape; cbn [poly_order_minus1 linear_interp_flag poly_coef_int poly_coef]; rewrite app_length; cbn; lia. }
        destruct (IH _ _ _ _ _ _ H Hinv1 Hcons Hsmall) as (b2 & Hc2 & Hinv' & Hext1 & Hw2).
        destruct (proj1 Hext1 pc' eq_refl) as (bf & Hbf & Hpe & Hbm & Hbi).
        assert (Hs : forall l, nth_error (poly_coef_int pc') i = Some l -> Forall se_small l).
        { intros l Hl. apply (proj1 Hsmall bf Hbf). eapply nth_error_In. apply (proj1 (proj2 (proj2 Hpe))). exact Hl. }
        destruct (poly_piece_rt h ib _ _ _ _ i Ep L1 L2 L3 L4 Hs) as (b1 & Hc1 & Hw1).
        exists (b0 ++ b1 ++ b2). split.
        { eapply consumed_trans; [exact Hc0|]. eapply consumed_trans; eassumption. }
        split; [replace (i + N.to_nat k)%nat with (S i + N.to_nat (k - 1))%nat by lia; exact Hinv'|].
        split.
        { eapply cext_trans; [|exact Hext1]. split; intros a Ha; [|congruence].
          exists pc'. unfold c1. cbn [polynomial mmr mapping_idc]. split; [reflexivity|]. split; [|split; [exact Hmn|reflexivity]].
          assert (a = pc) by (unfold pc; rewrite Ha; reflexivity). subst a.
          rewrite Hshape. repeat split; apply lext_app. }
        intros X HX p wb w. rewrite Hk. cbn [write_pieces].
        destruct (proj1 HX bf Hbf) as (bx & Hbx & Hpx & Hxm & Hxi).
        rewrite Hxi, Hw0. cbn [bind]. rewrite Hbx.
        rewrite (Hw1 bx (poly_ext_trans _ _ _ Hpe Hpx)). cbn [bind].
        rewrite (Hw2 X HX). rewrite !wput_app. reflexivity.
      + (* an MMR piece *)
        apply N.eqb_neq in E0. apply N.leb_gt in E2. assert (idc = 1) by lia. subst idc.
        destruct (parse_mmr_piece Debug h _ r1) as [[mc' r2]| |s] eqn:Ep; cbn [bind] in H; try discriminate.
        set (mc := match mmr c with Some x => x | None => empty_mmr end) in *.
        set (c1 := mkCurve (num_pivots_minus2 c) (pivots c) 1 (polynomial c) (Some mc')) in *.
        destruct (pieces_monotone _ _ _ _ _ _ H) as (Hm1 & Hm2 & _ & _).
        assert (Hpn : polynomial c = None).
        { destruct (polynomial c) as [pc|] eqn:Em; [|reflexivity]. exfalso.
          assert (Hp' : polynomial c' <> None) by (apply Hm1; unfold c1; cbn [polynomial]; try rewrite Em; discriminate).
          assert (Hq' : mmr c' <> None) by (apply Hm2; discriminate).
          unfold curve_consistent in Hcons. destruct (polynomial c'); [|congruence]. destruct (mmr c'); [discriminate|congruence]. }
        assert (Hlens : List.length (mmr_order_minus1 mc) = i /\ (t0 = true -> List.length (mmr_constant_int mc) = i) /\
                        List.length (mmr_constant mc) = i /\ List.length (mmr_coef_int mc) = i /\ List.length (mmr_coef mc) = i).
        { destruct Hinv as [(_ & H1 & ->)|[(pc0 & H1 & _)|(mc0 & _ & H2 & _ & L)]]; [|congruence|].
          - unfold mc. rewrite H1. cbn. auto.
          - unfold mc. rewrite H2. exact L. }
        destruct Hlens as (L1 & L2 & L3 & L4 & L5).
        assert (Hshape : exists order ci cst rows,
                   (t0 = true -> exists v, ci = Some v) /\
                   mc' = mkMmr (mmr_order_minus1 mc ++ [order])
                               (mmr_constant_int mc ++ match ci with Some v => [v] | None => [] end)
                               (mmr_constant mc ++ [cst]) (mmr_coef_int mc ++ [map ints_of rows])
                               (mmr_coef mc ++ [map fracs_of rows])).
        { clear -Ep. unfold parse_mmr_piece in Ep.
          destruct (get_n 8 2 r1) as [[order ra]| |s]; cbn [bind] in Ep; try discriminate.
          destruct (order <=? 2); cbn [ensure bind] in Ep; [|discriminate].
          destruct (get_coef Debug h ra) as [[[ci cst] rb]| |s] eqn:Ec; cbn [bind] in Ep; try discriminate.
          destruct (get_mmr_rows Debug h _ rb) as [[rows rc]| |s]; cbn [bind] in Ep; try discriminate.
          inversion Ep. exists order, ci, cst, rows. split; [|reflexivity].
          intros Et. unfold get_coef in Ec. fold t0 in Ec. rewrite Et in Ec.
          destruct (get_se Debug ra) as [[v rd]| |s]; cbn [bind] in Ec; try discriminate.
          destruct (get_n 64 _ rd) as [[x re]| |s]; cbn [bind] in Ec; try discriminate. inversion Ec. eauto. }
        destruct Hshape as (order & ci & cst & rows & Hci & Hshape).
        assert (Hinv1 : pinv c1 (S i)).
        { right; right. exists mc'. unfold c1. cbn [polynomial mmr mapping_idc]. repeat split; auto;
            rewrite Hshape; cbn [mmr_order_minus1 mmr_constant_int mmr_constant mmr_coef_int mmr_coef];
            try (rewrite app_length; cbn; lia).
          intros Et. destruct (Hci Et) as [v ->]. rewrite app_length. cbn. rewrite (L2 Et). lia. }
        destruct (IH _ _ _ _ _ _ H Hinv1 Hcons Hsmall) as (b2 & Hc2 & Hinv' & Hext1 & Hw2).
        destruct (proj2 Hext1 mc' eq_refl) as (bf & Hbf & Hpe & Hbm & Hbi).
        destruct Hpe as (Pe1 & Pe2 & Pe3 & Pe4 & Pe5).
        assert (Hs1 : forall v, t0 = true -> nth_error (mmr_constant_int mc') i = Some v -> se_small v).
        { intros v _ Hv. pose proof (proj1 (proj2 Hsmall bf Hbf)) as Hall. rewrite Forall_forall in Hall.
          apply Hall. eapply nth_error_In. apply Pe2. exact Hv. }
        assert (Hs2 : forall rws, nth_error (mmr_coef_int mc') i = Some rws -> forall l, In l rws -> Forall se_small l).
        { intros rws Hr. apply (proj2 (proj2 Hsmall bf Hbf)). eapply nth_error_In. apply Pe4. exact Hr. }
        destruct (mmr_piece_rt h _ _ _ _ i Ep L1 L2 L3 L4 L5 Hs1 Hs2) as (b1 & Hc1 & Hw1).
        exists (b0 ++ b1 ++ b2). split.
        { eapply consumed_trans; [exact Hc0|]. eapply consumed_trans; eassumption. }
        split; [replace (i + N.to_nat k)%nat with (S i + N.to_nat (k - 1))%nat by lia; exact Hinv'|].
        split.
        { eapply cext_trans; [|exact Hext1]. split; intros a Ha; [congruence|].
          exists mc'. unfold c1. cbn [polynomial mmr mapping_idc]. split; [reflexivity|]. split; [|split; [exact Hpn|reflexivity]].
          assert (a = mc) by (unfold mc; rewrite Ha; reflexivity). subst a.
          rewrite Hshape. repeat split; apply lext_app. }
        intros X HX p wb w. rewrite Hk. cbn [write_pieces].
        destruct (proj2 HX bf Hbf) as (bx & Hbx & Hpx & Hxp & Hxi).
        rewrite Hxi, Hw0. cbn [bind]. rewrite Hxp, Hbx.
        rewrite (Hw1 bx (mmr_ext_trans _ _ _ (conj Pe1 (conj Pe2 (conj Pe3 (conj Pe4 Pe5)))) Hpx)). cbn [bind].
        rewrite (Hw2 X HX). rewrite !wput_app. reflexivity.
  Qed.
End Curve.

(* ------------------------------------------------------------- pivots *)
Lemma get_pivots_rt fuel : forall k w r pv r', get_pivots fuel k w r = Ok (pv, r') ->
  exists bs, consumed r r' bs /\ forall wr, write_ns 16 w pv wr = Ok (wput wr bs).
Proof.
  induction fuel as [|f IH]; intros k w r pv r' H; cbn [get_pivots] in H.
  - destruct (k =? 0); [|discriminate]. inversion H; subst. exists []. split; [apply consumed_nil|].
    intros. cbn [write_ns]. rewrite wput_nil. reflexivity.
  - destruct (k =? 0).
    { inversion H; subst. exists []. split; [apply consumed_nil|]. intros. cbn [write_ns]. rewrite wput_nil. reflexivity. }
    destruct (get_n 16 w r) as [[v r1]| |s] eqn:E1; cbn [bind] in H; try discriminate.
    destruct (get_pivots f (k - 1) w r1) as [[t r2]| |s] eqn:E2; cbn [bind] in H; try discriminate.
    inversion H; subst pv r'. clear H.
    apply get_n_rt in E1. destruct E1 as (b1 & Hc1 & Hw1).
    destruct (IH _ _ _ _ _ E2) as (b2 & Hc2 & Hw2).
    exists (b1 ++ b2). split; [eapply consumed_trans; eassumption|].
    intros wr. cbn [write_ns]. rewrite Hw1. cbn [bind]. rewrite Hw2, wput_app. reflexivity.
Qed.

Lemma get_ns_rt k : forall tb w r l r', get_ns tb w k r = Ok (l, r') ->
  exists bs, consumed r r' bs /\ forall wr, write_ns tb w l wr = Ok (wput wr bs).
Proof.
  induction k as [|k IH]; intros tb w r l r' H; cbn [get_ns] in H.
  - inversion H; subst. exists []. split; [apply consumed_nil|]. intros. cbn [write_ns]. rewrite wput_nil. reflexivity.
  - destruct (get_n tb w r) as [[v r1]| |s] eqn:E1; cbn [bind] in H; try discriminate.
    destruct (get_ns tb w k r1) as [[t r2]| |s] eqn:E2; cbn [bind] in H; try discriminate.
    inversion H; subst l r'. clear H.
    apply get_n_rt in E1. destruct E1 as (b1 & Hc1 & Hw1).
    destruct (IH _ _ _ _ _ E2) as (b2 & Hc2 & Hw2).
    exists (b1 ++ b2). split; [eapply consumed_trans; eassumption|].
    intros wr. cbn [write_ns]. rewrite Hw1. cbn [bind]. rewrite Hw2, wput_app. reflexivity.
Qed.

Lemma curve_header_rt sw bl r c r' : parse_curve_header Debug sw bl r = Ok (c, r') ->
  polynomial c = None /\ mmr c = None /\ num_pivots_minus2 c + 1 < two64 /\
  exists bs, consumed r r' bs /\
    forall p w, (let* w1 := write_ue p (num_pivots_minus2 c) w in write_ns 16 bl (pivots c) w1) = Ok (wput w bs).
Proof.
  unfold parse_curve_header. intros H.
  destruct (get_ue Debug r) as [[n r1]| |s] eqn:Eu; cbn [bind] in H; try discriminate.
  pose proof (get_ue_bound _ _ _ Eu) as Hb.
  apply get_ue_rt in Eu. destruct Eu as (b1 & Hc1 & Hw1).
  destruct (match sw_pivots_bound sw with Some k => ensure (n <=? k) | None => if 1000000 <? n then Panic site_alloc else Ok tt end)
    as [[]| |s]; cbn [bind] in H; try discriminate.
  destruct (get_pivots _ (n + 2) bl r1) as [[pv r2]| |s] eqn:Ep; cbn [bind] in H; try discriminate.
  inversion H; subst c r'. clear H. cbn [polynomial mmr num_pivots_minus2 pivots].
  destruct (get_pivots_rt _ _ _ _ _ _ Ep) as (b2 & Hc2 & Hw2).
  repeat split; auto. exists (b1 ++ b2). split; [eapply consumed_trans; eassumption|].
  intros p w. rewrite Hw1. cbn [bind]. rewrite Hw2, wput_app. reflexivity.
Qed.

(* ------------------------------------------------------------- the whole mapping *)
Definition mapping_small (m : mapping) : Prop := Forall curve_small (curves m).
Definition mapping_consistent (m : mapping) : Prop := Forall (fun c => curve_consistent c = true) (curves m).

Lemma pinv_start c : polynomial c = None -> mmr c = None -> forall h, pinv h c 0.
Proof. intros H1 H2 h. left. auto. Qed.

Theorem mapping_roundtrip sw h r m r' :
  parse_mapping Debug sw h r = Ok (m, r') ->
  el_bit_depth_minus8 h < 256 ->
  mapping_consistent m -> mapping_small m ->
  exists bs, consumed r r' bs /\ forall p w, write_mapping p sw h m w = Ok (wput w bs).
Proof.
  unfold parse_mapping. intros H Hel Hcons Hsmall. cbv zeta in H.
  set (bl := (bl_bit_depth_minus8 h + 8) mod 4294967296) in *.
  destruct (get_ue Debug r) as [[id ra]| |s] eqn:E1; cbn [bind] in H; try discriminate.
  destruct (get_ue Debug ra) as [[cs rb]| |s] eqn:E2; cbn [bind] in H; try discriminate.
  destruct (get_ue Debug rb) as [[cf rc]| |s] eqn:E3; cbn [bind] in H; try discriminate.
  apply get_ue_rt in E1. destruct E1 as (b1 & Hc1 & Hw1).
  apply get_ue_rt in E2. destruct E2 as (b2 & Hc2 & Hw2).
  apply get_ue_rt in E3. destruct E3 as (b3 & Hc3 & Hw3).
  destruct (parse_curve_header Debug sw bl rc) as [[c0 rd]| |s] eqn:Eh0; cbn [bind] in H; try discriminate.
  destruct (parse_curve_header Debug sw bl rd) as [[c1 re]| |s] eqn:Eh1; cbn [bind] in H; try discriminate.
  destruct (parse_curve_header Debug sw bl re) as [[c2 rf]| |s] eqn:Eh2; cbn [bind] in H; try discriminate.
  destruct (curve_header_rt _ _ _ _ _ Eh0) as (P0 & M0 & B0 & b4 & Hc4 & Hw4).
  destruct (curve_header_rt _ _ _ _ _ Eh1) as (P1 & M1 & B1 & b5 & Hc5 & Hw5).
  destruct (curve_header_rt _ _ _ _ _ Eh2) as (P2 & M2 & B2 & b6 & Hc6 & Hw6).
  (* the NLQ header *)
  set (has_nlq := seq_info_ok h && negb (disable_residual_flag h)) in *.
  assert (Hnh : exists nm nnp npv rg b7,
            (if has_nlq
             then (let* '(m0, r0) := get_n 8 3 rf in let* _ := ensure (m0 =? 0) in
                   let* '(pv, r1) := get_ns 16 bl 2 r0 in Ok (Some 0, Some 0, Some pv, r1))
             else Ok (None, None, None, rf)) = Ok (nm, nnp, npv, rg) /\
            consumed rf rg b7 /\ (nm = Some 0 <-> has_nlq = true) /\ (nm = None <-> has_nlq = false) /\
            forall w, (if has_nlq
                       then (let* w1 := match nm with Some v => write_n 8 3 v w | None => Ok w end in
                             match npv with Some pv => write_ns 16 bl pv w1 | None => Ok w1 end)
                       else Ok w) = Ok (wput w b7)).
  { destruct has_nlq.
    - destruct (get_n 8 3 rf) as [[m0 r0]| |s] eqn:En; cbn [bind] in H |- *; try discriminate.
      destruct (m0 =? 0) eqn:Em0; cbn [ensure bind] in H |- *; [|discriminate].
      destruct (get_ns 16 bl 2 r0) as [[pv r1]| |s] eqn:Ens; cbn [bind] in H |- *; try discriminate.
      apply N.eqb_eq in Em0. subst m0.
      apply get_n_rt in En. destruct En as (x1 & Hx1 & Hwx1).
      destruct (get_ns_rt _ _ _ _ _ _ Ens) as (x2 & Hx2 & Hwx2).
      exists (Some 0), (Some 0), (Some pv), r1, (x1 ++ x2). split; [reflexivity|].
      split; [eapply consumed_trans; eassumption|]. split; [tauto|]. split; [split; discriminate|].
      intros w. rewrite Hwx1. cbn [bind]. rewrite Hwx2, wput_app. reflexivity.
    - exists None, None, None, rf, []. split; [reflexivity|]. split; [apply consumed_nil|].
      split; [split; discriminate|]. split; [tauto|]. intros w. rewrite wput_nil. reflexivity. }
  destruct Hnh as (nm & nnp & npv & rg & b7 & Enh & Hc7 & Hnm1 & Hnm2 & Hw7).
  rewrite Enh in H. cbn [bind] in H.
  destruct (get_ue Debug rg) as [[nx rh]| |s] eqn:E8; cbn [bind] in H; try discriminate.
  destruct (get_ue Debug rh) as [[ny ri]| |s] eqn:E9; cbn [bind] in H; try discriminate.
  apply get_ue_rt in E8. destruct E8 as (b8 & Hc8 & Hw8).
  apply get_ue_rt in E9. destruct E9 as (b9 & Hc9 & Hw9).
  destruct (parse_pieces Debug h _ _ _ (num_pivots_minus2 c0 + 1) c0 ri) as [[c0' rj]| |s] eqn:Ep0; cbn [bind] in H; try discriminate.
  destruct (parse_pieces Debug h _ _ _ (num_pivots_minus2 c1 + 1) c1 rj) as [[c1' rk]| |s] eqn:Ep1; cbn [bind] in H; try discriminate.
  destruct (parse_pieces Debug h _ _ _ (num_pivots_minus2 c2 + 1) c2 rk) as [[c2' rl]| |s] eqn:Ep2; cbn [bind] in H; try discriminate.
  assert (Hq : exists nq b13, consumed rl r' b13 /\
            m = mkMap id cs cf nx ny [c0'; c1'; c2'] nm nnp npv nq /\
            forall mm p w, nlq_method_idc mm = nm ->
              match nq with Some q => write_nlq p h mm q w | None => Ok w end = Ok (wput w b13)).
  { destruct nm as [v|].
    - destruct (parse_nlq Debug h rl) as [[q rm]| |s] eqn:Eq; cbn [bind] in H; try discriminate.
      inversion H; subst m r'. clear H.
      exists (Some q). 
      assert (Hex : exists b13, consumed rl rm b13 /\ forall mm p w, nlq_method_idc mm = Some v -> write_nlq p h mm q w = Ok (wput w b13)).
      { destruct (nlq_roundtrip h (mkMap 0 0 0 0 0 [] (Some v) None None None) _ _ _ Eq eq_refl Hel) as (bq & Hcq & Hwq).
        exists bq. split; [exact Hcq|]. intros mm p w Hmm. rewrite <- (Hwq p w).
        unfold write_nlq. rewrite Hmm. reflexivity. }
      destruct Hex as (b13 & Hcq & Hwq). exists b13. split; [exact Hcq|]. split; [reflexivity|exact Hwq].
    - inversion H; subst m r'. clear H. exists None, []. split; [apply consumed_nil|]. split; [reflexivity|].
      intros. rewrite wput_nil. reflexivity. }
  destruct Hq as (nq & b13 & Hc13 & Hm & Hw13). subst m. clear H.
  unfold mapping_consistent, mapping_small in Hcons, Hsmall. cbn [curves] in Hcons, Hsmall.
  inversion Hcons as [|? ? K0 Hcons1]; subst. inversion Hcons1 as [|? ? K1 Hcons2]; subst. inversion Hcons2 as [|? ? K2 _]; subst.
  inversion Hsmall as [|? ? S0 Hs1]; subst. inversion Hs1 as [|? ? S1 Hs2]; subst. inversion Hs2 as [|? ? S2 _]; subst.
  destruct (pieces_rt h _ _ _ _ _ _ _ _ 0%nat Ep0 (pinv_start _ P0 M0 h) K0 S0) as (b10 & Hc10 & I0 & _ & Hw10).
  destruct (pieces_rt h _ _ _ _ _ _ _ _ 0%nat Ep1 (pinv_start _ P1 M1 h) K1 S1) as (b11 & Hc11 & I1 & _ & Hw11).
  destruct (pieces_rt h _ _ _ _ _ _ _ _ 0%nat Ep2 (pinv_start _ P2 M2 h) K2 S2) as (b12 & Hc12 & I2 & _ & Hw12).
  destruct (pieces_monotone _ _ _ _ _ _ _ _ _ Ep0) as (_ & _ & N0 & V0).
  destruct (pieces_monotone _ _ _ _ _ _ _ _ _ Ep1) as (_ & _ & N1 & V1).
  destruct (pieces_monotone _ _ _ _ _ _ _ _ _ Ep2) as (_ & _ & N2 & V2).
  exists (b1 ++ b2 ++ b3 ++ b4 ++ b5 ++ b6 ++ b7 ++ b8 ++ b9 ++ b10 ++ b11 ++ b12 ++ b13). split.
  { repeat (eapply consumed_trans; [eassumption|]). eassumption. }
  intros p w. unfold write_mapping. cbv zeta. fold bl.
  cbn [vdr_rpu_id mapping_color_space mapping_chroma_format_idc curves nlq_method_idc nlq_pred_pivot_value
       num_x_partitions_minus1 num_y_partitions_minus1 mnlq nth_or_panic nth_error bind].
  rewrite Hw1. cbn [bind]. rewrite Hw2. cbn [bind]. rewrite Hw3. cbn [bind].
  rewrite N0, V0, N1, V1, N2, V2.
  rewrite Hw4. cbn [bind]. rewrite Hw5. cbn [bind]. rewrite Hw6. cbn [bind].
  fold has_nlq. rewrite Hw7. cbn [bind]. rewrite Hw8. cbn [bind]. rewrite Hw9. cbn [bind].
  rewrite K0, K1, K2. rewrite !andb_false_r.
  rewrite !N.mod_small by assumption.
  rewrite (Hw10 c0' (cext_refl h _ _ I0)). cbn [bind].
  rewrite (Hw11 c1' (cext_refl h _ _ I1)). cbn [bind].
  rewrite (Hw12 c2' (cext_refl h _ _ I2)). cbn [bind].
  rewrite (Hw13 (mkMap id cs cf nx ny [c0'; c1'; c2'] nm nnp npv nq) p _ eq_refl). rewrite !wput_app. reflexivity.
Qed.
