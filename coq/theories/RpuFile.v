(* RPU .bin files: writer (src/dovi/mod.rs write_rpu_file) and chunked reader
   (dolby_vision/src/rpu/utils.rs parse_rpu_file). *)
From Coq Require Import List NArith ZArith Lia Bool.
From DV Require Import Outcome Bits Escape BitIO Rpu.
Import ListNotations.
Open Scope N_scope.
Local Open Scope out_scope.

Definition SC : list N := [0; 0; 0; 1].

(* write_rpu_file: 4-byte start code + NAL without its 2-byte header, per entry *)
Definition write_rpu_file (nals : list (list N)) : list N :=
  flat_map (fun nal => SC ++ skipn 2 nal) nals.

(* chunk.windows(4).enumerate().filter(== [0,0,0,1]) *)
Fixpoint find_offsets_from (i : nat) (l : list N) : list nat :=
  match l with
  | 0 :: ((0 :: 0 :: 1 :: _) as t) => i :: find_offsets_from (S i) t
  | _ :: t => find_offsets_from (S i) t
  | [] => []
  end.
Definition find_offsets (l : list N) : list nat := find_offsets_from 0 l.

Definition slice (l : list N) (a b : nat) : list N := firstn (b - a) (skipn a l).

(* NAL byte ranges of one chunk: offsets (all but possibly the popped last), `last` *)
Fixpoint nal_ranges (chunk_len : nat) (offsets : list nat) (last : nat) : list (nat * nat) :=
  match offsets with
  | [] => []
  | o :: t =>
      let e := if Nat.eqb o last then chunk_len
               else match t with n :: _ => n | [] => last end in
      (o, e) :: nal_ranges chunk_len t last
  end.

Section Reader.
  Context (parse_nal : list N -> outcome rpu).

  Fixpoint removelast_n (l : list nat) : list nat :=
    match l with [] => [] | [x] => [] | x :: t => x :: removelast_n t end.

  (* one iteration: returns (parsed so far, saw an error, count, carry) *)
  Definition parse_ranges (chunk : list N) (ranges : list (nat * nat)) : list rpu * bool :=
    fold_left (fun '(acc, err) '(a, b) =>
                 match parse_nal (slice chunk a b) with
                 | Ok x => (acc ++ [x], err)
                 | _ => (acc, true)
                 end) ranges ([], false).

  (* the `while let Ok(n) = reader.read(..)` loop over a file read in full chunks of cs bytes *)
  Fixpoint reader_loop (fuel : nat) (cs : nat) (rest chunk : list N) (acc : list rpu)
           (offsets_count : nat) : outcome (list rpu) :=
    match fuel with
    | O => Err
    | S f =>
        let n := Nat.min cs (List.length rest) in
        if (Nat.eqb n 0) && (match chunk with [] => true | _ => false end) then
          (* loop exit *)
          if (Nat.ltb 0 offsets_count) && (Nat.eqb (List.length acc) offsets_count) then Ok acc else Err
        else
          let chunk := chunk ++ firstn n rest in
          let rest := skipn n rest in
          let offs := find_offsets chunk in
          match offs with
          | [] => Err
          | _ =>
              let last := List.last offs 0%nat in
              let full := negb (Nat.ltb n cs) in
              let use := if full then removelast_n offs else offs in
              let carry := if full then skipn last chunk else [] in
              let '(parsed, err) := parse_ranges chunk (nal_ranges (List.length chunk) use last) in
              let acc' := acc ++ parsed in
              if err then Err          (* warning_error: the final comparison fails or reports it *)
              else if (match acc' with [] => true | _ => false end) then Err
              else reader_loop f cs rest carry acc' (offsets_count + List.length use)
          end
    end.

  Definition parse_rpu_file (cs : nat) (file : list N) : outcome (list rpu) :=
    if Nat.eqb cs 0 then Err
    else reader_loop (S (S (List.length file))) cs file [] [] 0.
End Reader.
