(* Non-vacuity of the RPU round-trip theorem: the profile 7 FEL sample of the repository
   (assets/tests/fel_orig.bin, un-escaped payload: polynomial and MMR curves, NLQ, DM payload with
   extension blocks) is accepted, meets the side conditions, and the unmodified write returns. *)
From Coq Require Import List NArith ZArith Lia Bool String.
From DV Require Import Outcome Bits BitIO Fields Blocks Rpu Tables FieldsProofs HeaderRT MappingRT RpuRT.
Import ListNotations.
Open Scope N_scope.

(* a decidable form of the side conditions *)
Definition se_smallb (v : Z) : bool := (Z.abs v <? Z.of_N two52)%Z.
Definition curve_smallb (c : curve) : bool :=
  match polynomial c with Some b => forallb (forallb se_smallb) (poly_coef_int b) | None => true end &&
  match mmr c with
  | Some b => forallb se_smallb (mmr_constant_int b) && forallb (forallb (forallb se_smallb)) (mmr_coef_int b)
  | None => true
  end.
Definition side_conditionsb (x : rpu) : bool :=
  match rmapping x with
  | Some m => forallb curve_consistent (curves m) && forallb curve_smallb (curves m)
  | None => true
  end.

Lemma se_smallb_sound l : forallb se_smallb l = true -> Forall se_small l.
Proof.
  intros H. apply Forall_forall. intros v Hv. rewrite forallb_forall in H. specialize (H v Hv).
  unfold se_smallb in H. apply Z.ltb_lt in H. exact H.
Qed.

Lemma curve_smallb_sound c : curve_smallb c = true -> curve_small c.
Proof.
  unfold curve_smallb, curve_small. intros H. apply andb_prop in H. destruct H as [H1 H2]. split.
  - intros b Hb l Hl. rewrite Hb in H1. rewrite forallb_forall in H1. apply se_smallb_sound. apply H1. exact Hl.
  - intros b Hb. rewrite Hb in H2. apply andb_prop in H2. destruct H2 as [H2 H3]. split; [apply se_smallb_sound; exact H2|].
    intros rows Hr l Hl. rewrite forallb_forall in H3. specialize (H3 rows Hr). rewrite forallb_forall in H3.
    apply se_smallb_sound. apply H3. exact Hl.
Qed.

Lemma side_conditionsb_sound x : side_conditionsb x = true -> rpu_side_conditions x.
Proof.
  unfold side_conditionsb, rpu_side_conditions. destruct (rmapping x) as [m|]; [|auto].
  intros H. apply andb_prop in H. destruct H as [H1 H2]. split.
  - unfold mapping_consistent. apply Forall_forall. intros c Hc. rewrite forallb_forall in H1. auto.
  - unfold mapping_small. apply Forall_forall. intros c Hc. rewrite forallb_forall in H2. apply curve_smallb_sound. auto.
Qed.

Definition fel_sample : list N := [25; 8; 9; 8; 64; 97; 54; 80; 174; 32; 0; 32; 8; 2; 0; 128; 32; 8; 2; 0; 127; 128; 31; 252; 0; 255; 192; 1; 255; 250; 0; 0; 1; 0; 0; 0; 208; 0; 0; 8; 0; 0; 6; 128; 0; 0; 64; 0; 0; 52; 0; 0; 2; 0; 0; 1; 160; 0; 0; 16; 0; 0; 13; 0; 0; 0; 128; 0; 0; 104; 0; 0; 4; 0; 0; 3; 64; 0; 0; 32; 0; 0; 10; 134; 217; 230; 123; 47; 134; 62; 252; 24; 158; 96; 41; 233; 140; 6; 184; 197; 102; 167; 205; 95; 141; 255; 203; 109; 140; 57; 227; 138; 153; 129; 184; 108; 166; 121; 15; 64; 95; 67; 76; 183; 216; 14; 158; 4; 195; 73; 253; 59; 183; 126; 194; 205; 93; 227; 161; 71; 212; 76; 10; 46; 128; 98; 22; 74; 2; 155; 93; 89; 80; 14; 211; 143; 88; 196; 108; 78; 193; 58; 20; 88; 44; 255; 48; 35; 83; 109; 87; 187; 182; 228; 17; 72; 59; 146; 150; 100; 19; 105; 143; 206; 107; 195; 27; 214; 32; 250; 221; 64; 91; 190; 244; 100; 49; 96; 177; 240; 27; 242; 238; 251; 242; 165; 226; 243; 204; 180; 171; 243; 204; 57; 131; 119; 158; 117; 104; 49; 27; 0; 72; 0; 0; 64; 4; 0; 64; 0; 0; 64; 18; 0; 0; 16; 1; 0; 16; 0; 0; 16; 4; 128; 0; 4; 0; 64; 4; 0; 0; 7; 37; 102; 0; 0; 53; 234; 37; 102; 249; 252; 235; 28; 37; 102; 68; 202; 0; 0; 1; 0; 0; 0; 8; 0; 0; 0; 8; 0; 0; 0; 28; 54; 34; 67; 1; 134; 10; 94; 48; 142; 5; 20; 0; 0; 1; 166; 62; 90; 255; 255; 0; 0; 0; 0; 0; 0; 0; 0; 96; 32; 15; 128; 225; 81; 128; 48; 8; 0; 89; 202; 18; 0; 192; 40; 33; 141; 248; 37; 128; 8; 0; 97; 64; 0; 2; 2; 42; 81; 32; 136; 5; 0; 0; 0; 2; 40; 17; 80; 18; 12; 7; 208; 0; 2; 13; 96; 1; 94; 184; 242; 157; 130; 128].

Example fel_sample_roundtrips :
  forallb is_byte fel_sample = true /\
  match parse_inner Debug src_sw fel_sample with
  | Ok x => side_conditionsb x = true /\ write_rpu_data Debug src_sw x = Ok fel_sample
  | _ => False
  end.
Proof. vm_compute. auto. Qed.
