(* C04: converting twice with the same mode equals converting once. *)
From Coq Require Import List NArith ZArith Lia Bool String.
From DV Require Import Outcome Bits BitIO Fields Blocks Rpu Ops C04Proofs.
From DVgen Require Import Blocks_gen DmData_gen Modes_gen.
Import ListNotations.
Open Scope N_scope.

(* ---- set_fields twice = once ---- *)
Lemma set_nth_length i v l : List.length (set_nth i v l) = List.length l.
Proof. revert i; induction l as [|x t IH]; intros [|i]; cbn; auto. Qed.

Lemma nth_error_set_nth_same i v l : (i < List.length l)%nat -> nth_error (set_nth i v l) i = Some v.
Proof.
  revert i; induction l as [|x t IH]; intros [|i] H; cbn in *; try lia; auto. apply IH. lia.
Qed.

Lemma nth_error_ext' {A} : forall (a b : list A), (forall j, nth_error a j = nth_error b j) -> a = b.
Proof.
  induction a as [|x a IH]; intros [|y b] H.
  - reflexivity.
  - specialize (H 0%nat). discriminate.
  - specialize (H 0%nat). discriminate.
  - pose proof (H 0%nat) as H0. cbn in H0. inversion H0; subst. f_equal. apply IH. intros j. apply (H (S j)).
Qed.

(* the value finally written at position j by a sequence of set_field operations *)
Fixpoint final (prog : list fld) (kv : list (string * Z)) (j : nat) : option Z :=
  match kv with
  | [] => None
  | (k, v) :: t => match final prog t j with
                   | Some w => Some w
                   | None => if onat_eqb (index_of k prog 0) (Some j) then Some v else None
                   end
  end.

Lemma set_fields_length prog kv : forall vs, List.length (set_fields prog vs kv) = List.length vs.
Proof.
  induction kv as [|[k v] t IH]; intros vs; [reflexivity|]. cbn [set_fields]. rewrite IH.
  unfold set_field. destruct (index_of k prog 0); [apply set_nth_length|reflexivity].
Qed.

Lemma set_fields_nth prog kv : forall vs j, (j < List.length vs)%nat ->
  nth_error (set_fields prog vs kv) j = match final prog kv j with Some w => Some w | None => nth_error vs j end.
Proof.
  induction kv as [|[k v] t IH]; intros vs j Hj; [reflexivity|]. cbn [set_fields final].
  rewrite IH.
  - destruct (final prog t j) as [w|]; [reflexivity|].
    unfold set_field. destruct (index_of k prog 0) as [i|]; cbn [onat_eqb]; [|reflexivity].
    destruct (Nat.eqb_spec i j) as [->|Hne].
    + apply nth_error_set_nth_same. exact Hj.
    + apply nth_error_set_nth_other. exact Hne.
  - unfold set_field. destruct (index_of k prog 0); [rewrite set_nth_length|]; exact Hj.
Qed.

Lemma set_fields_idem prog kv vs : set_fields prog (set_fields prog vs kv) kv = set_fields prog vs kv.
Proof.
  apply nth_error_ext'. intros j.
  destruct (Nat.lt_ge_cases j (List.length vs)) as [Hj|Hj].
  - rewrite set_fields_nth by (rewrite set_fields_length; exact Hj).
    rewrite (set_fields_nth prog kv vs j Hj). destruct (final prog kv j); reflexivity.
  - assert (H1 : nth_error (set_fields prog (set_fields prog vs kv) kv) j = None)
      by (apply nth_error_None; rewrite !set_fields_length; exact Hj).
    assert (H2 : nth_error (set_fields prog vs kv) j = None)
      by (apply nth_error_None; rewrite !set_fields_length; exact Hj).
    congruence.
Qed.

Lemma set_p81_coeffs_idem d : set_p81_coeffs (set_p81_coeffs d) = set_p81_coeffs d.
Proof. unfold set_p81_coeffs. cbn [dm_compressed dm_ids dm_main cmv29 cmv40]. rewrite set_fields_idem. reflexivity. Qed.

Lemma option_p81_idem d : option_map set_p81_coeffs (option_map set_p81_coeffs d) = option_map set_p81_coeffs d.
Proof. destruct d; cbn; [rewrite set_p81_coeffs_idem|]; reflexivity. Qed.

(* ---- the RPU is consistent: the cached profile / EL type are those of the header / mapping
        (true of every parsed or converted RPU) ---- *)
Definition consistent (x : rpu) : Prop :=
  dovi_profile x = get_dovi_profile (hdr x) /\ el_type x = el_type_of (rmapping x).

Lemma convert_consistent x m y : convert_with_mode x m = Ok y -> consistent y.
Proof.
  unfold convert_with_mode. cbv zeta.
  match goal with |- (bind ?o _) = _ -> _ => destruct o as [y0| |s] end; cbn [bind]; intros H; try discriminate.
  inversion H. split; reflexivity.
Qed.

Lemma profile78_header h : get_dovi_profile h = 7 \/ get_dovi_profile h = 8 -> vdr_rpu_profile h = 1.
Proof.
  unfold get_dovi_profile. destruct (vdr_rpu_profile h =? 0) eqn:E0.
  - destruct (bl_video_full_range_flag h); intros [H|H]; discriminate.
  - destruct (vdr_rpu_profile h =? 1) eqn:E1; [intros _; apply N.eqb_eq; exact E1|intros [H|H]; discriminate].
Qed.

Lemma profile_after_p81 h : vdr_rpu_profile h = 1 -> get_dovi_profile (hdr_set_el h false true) = 8.
Proof. intros H. unfold get_dovi_profile, hdr_set_el. cbn. rewrite H. reflexivity. Qed.

Lemma rpu_ext a b : dovi_profile a = dovi_profile b -> el_type a = el_type b -> hdr a = hdr b ->
  rmapping a = rmapping b -> rdm a = rdm b -> remaining a = remaining b -> rpu_crc a = rpu_crc b ->
  modified a = modified b -> trailing_zeroes a = trailing_zeroes b -> a = b.
Proof. destruct a, b; cbn; intros; subst; reflexivity. Qed.

(* what convert_to_p81 does to the mapping *)
Definition p81map (m0 : mapping) : mapping :=
  mkMap (vdr_rpu_id m0) (mapping_color_space m0) (mapping_chroma_format_idc m0) 0 0 (curves m0) None None None None.
Lemma p81map_idem mm : option_map p81map (option_map p81map mm) = option_map p81map mm.
Proof. destruct mm; reflexivity. Qed.
Lemma p81map_empty mm :
  option_map p81map (option_map set_empty_p81_mapping (option_map p81map mm)) =
  option_map set_empty_p81_mapping (option_map p81map mm).
Proof. destruct mm; reflexivity. Qed.
Lemma el_p81map mm : el_type_of (option_map p81map mm) = None.
Proof. destruct mm; reflexivity. Qed.
Lemma el_p81map_empty mm : el_type_of (option_map set_empty_p81_mapping (option_map p81map mm)) = None.
Proof. destruct mm; reflexivity. Qed.

Lemma p81_absorb_a z :
  refresh (convert_to_p81 (set_modified (refresh (convert_to_p81 z)))) = refresh (convert_to_p81 z).
Proof.
  apply rpu_ext; try reflexivity.
  - change (el_type_of (option_map p81map (option_map p81map (rmapping z))) = el_type_of (option_map p81map (rmapping z))).
    rewrite p81map_idem. reflexivity.
  - change (option_map p81map (option_map p81map (rmapping z)) = option_map p81map (rmapping z)). apply p81map_idem.
  - apply option_p81_idem.
Qed.

Lemma p81_absorb_b z :
  refresh (convert_to_p81 (set_modified (refresh (remove_mapping (convert_to_p81 z))))) =
  refresh (remove_mapping (convert_to_p81 z)).
Proof.
  apply rpu_ext; try reflexivity.
  - change (el_type_of (option_map p81map (option_map set_empty_p81_mapping (option_map p81map (rmapping z)))) =
            el_type_of (option_map set_empty_p81_mapping (option_map p81map (rmapping z)))).
    rewrite p81map_empty. reflexivity.
  - change (option_map p81map (option_map set_empty_p81_mapping (option_map p81map (rmapping z))) =
            option_map set_empty_p81_mapping (option_map p81map (rmapping z))). apply p81map_empty.
  - apply option_p81_idem.
Qed.

(* the result of convert_to_p81_remove_mapping, refreshed, has no enhancement layer *)
Lemma rm_el_none z : el_type (refresh (convert_to_p81_remove_mapping z)) = None.
Proof.
  unfold convert_to_p81_remove_mapping. destruct (el_type z) as [[|[| |]]|]; cbn [refresh el_type];
    first [apply (el_p81map (rmapping z)) | apply (el_p81map_empty (rmapping z))].
Qed.

Lemma p81_rm_absorb z :
  refresh (convert_to_p81_remove_mapping (set_modified (refresh (convert_to_p81_remove_mapping z)))) =
  refresh (convert_to_p81_remove_mapping z).
Proof.
  unfold convert_to_p81_remove_mapping at 1.
  change (el_type (set_modified (refresh (convert_to_p81_remove_mapping z)))) with (el_type (refresh (convert_to_p81_remove_mapping z))).
  rewrite rm_el_none.
  unfold convert_to_p81_remove_mapping. destruct (el_type z) as [[|[| |]]|];
    first [apply p81_absorb_a | apply p81_absorb_b].
Qed.

Lemma refresh_idem z : refresh (refresh z) = refresh z.
Proof. reflexivity. Qed.

Lemma profile_rm z : vdr_rpu_profile (hdr z) = 1 -> dovi_profile (refresh (convert_to_p81_remove_mapping z)) = 8.
Proof.
  intros H. unfold convert_to_p81_remove_mapping.
  destruct (el_type z) as [[|[| |]]|]; cbn [refresh dovi_profile]; apply (profile_after_p81 (hdr z) H).
Qed.

Definition p5body (x : rpu) : rpu :=
  let y := convert_to_p81 x in
  let y := mkRpu 8 (el_type y) (hdr_set_profile (hdr y) 1 false) (rmapping y) (rdm y) (remaining y)
                 (rpu_crc y) true (trailing_zeroes y) in
  let y := remove_mapping y in
  with_dm y (option_map set_p81_coeffs (rdm y)) true.

Lemma p5_to_p81_body x : p5_to_p81 x = if dovi_profile x =? 5 then Ok (p5body x) else Err.
Proof. reflexivity. Qed.

Lemma p5_profile z : dovi_profile (refresh (p5body z)) = 8.
Proof. reflexivity. Qed.

Lemma p5_el z : el_type (refresh (p5body z)) = None.
Proof. apply (el_p81map_empty (rmapping z)). Qed.

Lemma p5_absorb z :
  refresh (convert_to_p81_remove_mapping (set_modified (refresh (p5body z)))) = refresh (p5body z).
Proof.
  unfold convert_to_p81_remove_mapping.
  change (el_type (set_modified (refresh (p5body z)))) with (el_type (refresh (p5body z))).
  rewrite p5_el.
  apply rpu_ext; try reflexivity.
  - change (el_type_of (option_map p81map (option_map set_empty_p81_mapping (option_map p81map (rmapping z)))) =
            el_type_of (option_map set_empty_p81_mapping (option_map p81map (rmapping z)))).
    rewrite p81map_empty. reflexivity.
  - change (option_map p81map (option_map set_empty_p81_mapping (option_map p81map (rmapping z))) =
            option_map set_empty_p81_mapping (option_map p81map (rmapping z))). apply p81map_empty.
  - change (option_map set_p81_coeffs (option_map set_p81_coeffs (option_map set_p81_coeffs (rdm z))) =
            option_map set_p81_coeffs (option_map set_p81_coeffs (rdm z))). apply option_p81_idem.
Qed.

(* THE IDEMPOTENCE THEOREM: whenever the second conversion succeeds it changes nothing *)
Theorem convert_idempotent x m y y' :
  consistent x -> convert_with_mode x m = Ok y -> convert_with_mode y m = Ok y' -> y' = y.
Proof.
  intros [Hp He] H1 H2. unfold convert_with_mode in H1, H2. cbv zeta in H1, H2.
  destruct (m =? 0) eqn:M0.
  { cbn [bind] in *. inversion H1; subst y. inversion H2. reflexivity. }
  destruct (m =? 1) eqn:M1.
  { (* to MEL *)
    change (dovi_profile (set_modified x)) with (dovi_profile x) in H1.
    destruct ((dovi_profile x =? 7) || (dovi_profile x =? 8)); [|discriminate].
    destruct ((dovi_profile (set_modified y) =? 7) || (dovi_profile (set_modified y) =? 8)); [|discriminate].
    unfold convert_to_mel in H1. change (rmapping (set_modified x)) with (rmapping x) in H1.
    destruct (rmapping x) as [mx|] eqn:Emx.
    - change (dovi_profile (set_modified x)) with (dovi_profile x) in H1.
      destruct (match mnlq mx with Some _ => Ok mel_nlq | None => if dovi_profile x =? 8 then Ok mel_nlq else Err end) as [q| |s] eqn:Eq;
        cbn [bind] in H1; try discriminate.
      assert (q = mel_nlq) by (destruct (mnlq mx); [congruence|destruct (dovi_profile x =? 8); congruence]). subst q.
      inversion H1; subst y. clear H1.
      unfold convert_to_mel in H2. cbn in H2. inversion H2. reflexivity.
    - cbn [bind] in H1. inversion H1; subst y. clear H1.
      match type of H2 with context [convert_to_mel ?Y] =>
        assert (Er : rmapping Y = None) by exact Emx; unfold convert_to_mel in H2; rewrite Er in H2 end.
      cbn [bind] in H2. inversion H2. apply rpu_ext; reflexivity. }
  destruct (m =? 2) eqn:M2.
  { change (dovi_profile (set_modified x)) with (dovi_profile x) in H1.
    destruct ((dovi_profile x =? 7) || (dovi_profile x =? 8)) eqn:P78.
    - assert (Hv : vdr_rpu_profile (hdr x) = 1).
      { apply profile78_header. rewrite <- Hp. apply orb_prop in P78. destruct P78 as [P|P]; apply N.eqb_eq in P; auto. }
      cbn [bind] in H1. inversion H1; subst y. clear H1.
      change (dovi_profile (set_modified (refresh (convert_to_p81_remove_mapping (set_modified x)))))
        with (dovi_profile (refresh (convert_to_p81_remove_mapping (set_modified x)))) in H2.
      rewrite (profile_rm (set_modified x) Hv) in H2. cbn [N.eqb orb Pos.eqb bind] in H2. inversion H2.
      apply p81_rm_absorb.
    - destruct (dovi_profile x =? 5) eqn:P5; [|discriminate].
      rewrite p5_to_p81_body in H1. change (dovi_profile (set_modified x)) with (dovi_profile x) in H1. rewrite P5 in H1.
      cbn [bind] in H1. inversion H1; subst y. clear H1.
      change (dovi_profile (set_modified (refresh (p5body (set_modified x))))) with 8 in H2.
      cbn [N.eqb orb Pos.eqb bind] in H2. inversion H2. apply p5_absorb. }
  destruct (m =? 3) eqn:M3.
  { cbn [bind] in *. inversion H1; subst y. clear H1. inversion H2. clear H2.
    apply rpu_ext; try reflexivity; try exact (option_p81_idem (rdm x));
      unfold convert_to_p84; destruct p84_keeps_dm_flags; reflexivity. }
  destruct (m =? 4) eqn:M4; [|discriminate].
  { change (dovi_profile (set_modified x)) with (dovi_profile x) in H1.
    destruct ((dovi_profile x =? 7) || (dovi_profile x =? 8)) eqn:P78; [|discriminate].
    assert (Hv : vdr_rpu_profile (hdr x) = 1).
    { apply profile78_header. rewrite <- Hp. apply orb_prop in P78. destruct P78 as [P|P]; apply N.eqb_eq in P; auto. }
    cbn [bind] in H1. inversion H1; subst y. clear H1.
    change (dovi_profile (set_modified (refresh (convert_to_p81 (set_modified x)))))
      with (get_dovi_profile (hdr_set_el (hdr x) false true)) in H2.
    rewrite (profile_after_p81 (hdr x) Hv) in H2. cbn [N.eqb orb Pos.eqb bind] in H2. inversion H2.
    apply p81_absorb_a. }
Qed.

Lemma profile_after_mel h : vdr_rpu_profile h = 1 -> vdr_bit_depth_minus8 h = 4 ->
  get_dovi_profile (hdr_set_el h true false) = 7.
Proof. intros H1 H2. unfold get_dovi_profile, hdr_set_el. cbn. rewrite H1, H2. reflexivity. Qed.

(* the second conversion does succeed (mode 1: when the VDR bit depth is the 12 bits of profile 7;
   with another depth the MEL header is not a profile the tool knows, and it says so) *)
Lemma second_conversion_ok x m y :
  consistent x -> convert_with_mode x m = Ok y ->
  (m = 1 -> vdr_bit_depth_minus8 (hdr x) = 4) ->
  exists y', convert_with_mode y m = Ok y'.
Proof.
  intros [Hp He] H1 Hd. unfold convert_with_mode in H1 |- *. cbv zeta in H1 |- *.
  destruct (m =? 0) eqn:M0; [eexists; reflexivity|].
  destruct (m =? 1) eqn:M1.
  { apply N.eqb_eq in M1. specialize (Hd M1).
    change (dovi_profile (set_modified x)) with (dovi_profile x) in H1.
    destruct ((dovi_profile x =? 7) || (dovi_profile x =? 8)) eqn:P78; [|discriminate].
    assert (Hv : vdr_rpu_profile (hdr x) = 1).
    { apply profile78_header. rewrite <- Hp. apply orb_prop in P78. destruct P78 as [P|P]; apply N.eqb_eq in P; auto. }
    unfold convert_to_mel in H1. change (rmapping (set_modified x)) with (rmapping x) in H1.
    destruct (rmapping x) as [mx|] eqn:Emx.
    - change (dovi_profile (set_modified x)) with (dovi_profile x) in H1.
      destruct (match mnlq mx with Some _ => Ok mel_nlq | None => if dovi_profile x =? 8 then Ok mel_nlq else Err end) as [q| |s] eqn:Eq;
        cbn [bind] in H1; try discriminate.
      inversion H1; subst y. clear H1.
      change (dovi_profile (set_modified (refresh _))) with (get_dovi_profile (hdr_set_el (hdr x) true false)).
      rewrite (profile_after_mel (hdr x) Hv Hd). cbn [N.eqb Pos.eqb orb].
      unfold convert_to_mel. cbn. eexists; reflexivity.
    - cbn [bind] in H1. inversion H1; subst y. clear H1.
      change (dovi_profile (set_modified (refresh _))) with (get_dovi_profile (hdr_set_el (hdr x) true false)).
      rewrite (profile_after_mel (hdr x) Hv Hd). cbn [N.eqb Pos.eqb orb].
      match goal with |- context [convert_to_mel ?Y] =>
        assert (Er : rmapping Y = None) by exact Emx; unfold convert_to_mel; rewrite Er end.
      cbn [bind]. eexists; reflexivity. }
  destruct (m =? 2) eqn:M2.
  { change (dovi_profile (set_modified x)) with (dovi_profile x) in H1.
    destruct ((dovi_profile x =? 7) || (dovi_profile x =? 8)) eqn:P78.
    - assert (Hv : vdr_rpu_profile (hdr x) = 1).
      { apply profile78_header. rewrite <- Hp. apply orb_prop in P78. destruct P78 as [P|P]; apply N.eqb_eq in P; auto. }
      cbn [bind] in H1. inversion H1; subst y. clear H1.
      change (dovi_profile (set_modified (refresh (convert_to_p81_remove_mapping (set_modified x)))))
        with (dovi_profile (refresh (convert_to_p81_remove_mapping (set_modified x)))).
      rewrite (profile_rm (set_modified x) Hv). cbn [N.eqb orb Pos.eqb bind]. eexists; reflexivity.
    - destruct (dovi_profile x =? 5) eqn:P5; [|discriminate].
      rewrite p5_to_p81_body in H1. change (dovi_profile (set_modified x)) with (dovi_profile x) in H1. rewrite P5 in H1.
      cbn [bind] in H1. inversion H1; subst y. clear H1.
      change (dovi_profile (set_modified (refresh (p5body (set_modified x))))) with 8.
      cbn [N.eqb orb Pos.eqb bind]. eexists; reflexivity. }
  destruct (m =? 3) eqn:M3; [cbn [bind]; eexists; reflexivity|].
  destruct (m =? 4) eqn:M4; [|discriminate].
  change (dovi_profile (set_modified x)) with (dovi_profile x) in H1.
  destruct ((dovi_profile x =? 7) || (dovi_profile x =? 8)) eqn:P78; [|discriminate].
  assert (Hv : vdr_rpu_profile (hdr x) = 1).
  { apply profile78_header. rewrite <- Hp. apply orb_prop in P78. destruct P78 as [P|P]; apply N.eqb_eq in P; auto. }
  cbn [bind] in H1. inversion H1; subst y. clear H1.
  change (dovi_profile (set_modified (refresh (convert_to_p81 (set_modified x)))))
    with (get_dovi_profile (hdr_set_el (hdr x) false true)).
  rewrite (profile_after_p81 (hdr x) Hv). cbn [N.eqb orb Pos.eqb bind]. eexists; reflexivity.
Qed.

(* CONVERTING TWICE EQUALS CONVERTING ONCE *)
Theorem convert_twice x m y :
  consistent x -> convert_with_mode x m = Ok y ->
  (m = 1 -> vdr_bit_depth_minus8 (hdr x) = 4) ->
  convert_with_mode y m = Ok y.
Proof.
  intros Hc H1 Hd. destruct (second_conversion_ok x m y Hc H1 Hd) as [y' H2].
  rewrite H2. f_equal. apply (convert_idempotent x m y y' Hc H1 H2).
Qed.

(* every parsed RPU is consistent *)
Ltac step_bind H :=
  match type of H with
  | bind ?o _ = Ok _ => let E := fresh "E" in let v := fresh "v" in
      destruct o as [v| |] eqn:E; cbn [bind] in H; [|discriminate|discriminate];
      try match type of v with (_ * _)%type => destruct v end
  end.

Lemma read_rpu_data_consistent p sw bytes x : read_rpu_data p sw bytes = Ok x -> consistent x.
Proof.
  unfold read_rpu_data. cbv zeta. intros H.
  repeat step_bind H. inversion H. split; reflexivity.
Qed.

Lemma parse_inner_consistent p sw data x : parse_inner p sw data = Ok x -> consistent x.
Proof.
  unfold parse_inner. cbv zeta.
  destruct (match sw_rpu_end_min sw with Some k => _ | None => false end); [discriminate|].
  destruct (_ <? 6)%nat; [discriminate|]. destruct (negb _); [discriminate|].
  destruct (read_rpu_data p sw _) as [x0| |s] eqn:E; cbn [bind]; try discriminate.
  destruct (negb _); [discriminate|]. destruct (rpu_valid _); [|discriminate].
  intros H. inversion H. apply read_rpu_data_consistent in E. destruct E as [E1 E2]. split; cbn; assumption.
Qed.

Theorem parse_rpu_consistent p sw data x : parse_rpu p sw data = Ok x -> consistent x.
Proof.
  unfold parse_rpu. destruct (validated_trimmed_data data); cbn [bind]; try discriminate. apply parse_inner_consistent.
Qed.
