(* C11 - CM XML metadata is converted to RPU values by the documented formulas.
   The Coq model acts here mainly as an independent evaluator of the binary32 formulas (the
   decision comes from the correspondence with `generate --xml`); the theorems are the laws that
   hold for every input. *)
From Coq Require Import List NArith ZArith Bool String Sorting.Permutation Sorting.Sorted.
From DV Require Import Outcome Bits BitIO Blocks Rpu Ops Editor Generator GeneratorProofs XmlFormulas XmlProofs.
Import ListNotations.
Open Scope Z_scope.

(* every trim code stays in its field's range, for every float (NaN and infinities included) *)
Theorem C11_clamped : forall v g l,
  0 <= u12_of v <= 4095 /\ -32768 <= i12_of v <= 4095 /\ 0 <= slope_of g l <= 4095 /\
  0 <= offset_of g l <= 4095 /\ 0 <= power_of v <= 4095 /\ 0 <= vec_of v <= 255 /\ 0 <= pq12_of v <= 65535.
Proof.
  intros v g l. repeat split; try apply u12_of_range; try apply i12_of_range; try apply slope_of_range;
  try apply offset_of_range; try apply power_of_range; try apply vec_of_range; try apply pq12_of_range.
Qed.

Theorem C11_neutral :
  u12_of (d2f (0, 0%nat)) = 2048 /\ i12_of (d2f (0, 0%nat)) = 2048 /\ vec_of (d2f (0, 0%nat)) = 128 /\
  slope_of (d2f (0, 0%nat)) (d2f (0, 0%nat)) = 2048 /\ offset_of (d2f (0, 0%nat)) (d2f (0, 0%nat)) = 2048 /\
  power_of (d2f (0, 0%nat)) = 2048 /\ pq12_of (d2f (1, 0%nat)) = 4095 /\ pq12_of (d2f (0, 0%nat)) = 0.
Proof. exact neutral_codes. Qed.

(* shots ordered by their start frame, none lost *)
Theorem C11_shot_order : forall l,
  StronglySorted (fun a b => (fst a <= fst b)%N) (sort_shots l) /\ Permutation (sort_shots l) l.
Proof. intros l. split; [apply sort_shots_sorted|apply sort_shots_perm]. Qed.

(* the document produces one RPU per frame of every shot *)
Theorem C11_frame_count : forall c base l,
  generate_list c base = Ok l -> List.length l = N.to_nat (g_length c) /\ g_length c = sum_dur (g_shots c).
Proof. exact generate_list_length. Qed.

Print Assumptions C11_clamped.
Print Assumptions C11_neutral.
Print Assumptions C11_shot_order.
