(* C19 - PQ <-> nits conversions are exact inverses on code values and match ST 2084.
   The tables are the implementation's own outputs on the whole finite domain (regenerated on
   every run); every entry is certified against the real-valued ST 2084 functions by Interval. *)
From Coq Require Import Reals List ZArith Lia Bool String.
From DV Require Import Pq PqProps.
From DVgen Require Import Consts_gen PqTables_gen PqCertAll PqUsers_gen.
Import ListNotations.
Open Scope Z_scope.

(* every integer luminance 0..10000 has a table entry, and that entry is a correct rounding of
   4095 * PQ(L) for the mathematical PQ function *)
Theorem C19_nits_table_correct : forall L, 0 <= L <= 10000 ->
  exists c, lookup L nits_table = Some c /\ cert_nits (L, c).
Proof.
  intros L HL. destruct (complete_spec 10000 nits_table ltac:(vm_compute; reflexivity) L HL) as [c Hc].
  exists c. split; [exact Hc | apply nits_entry_cert; exact Hc].
Qed.

(* minimum luminances k/10000 nits, k = 0..10000 *)
Theorem C19_min_table_correct : forall k, 0 <= k <= 10000 ->
  exists c, lookup k min_table = Some c /\ cert_min (k, c).
Proof.
  intros k Hk. destruct (complete_spec 10000 min_table ltac:(vm_compute; reflexivity) k Hk) as [c Hc].
  exists c. split; [exact Hc | apply min_entry_cert; exact Hc].
Qed.

(* code -> nits for all 4096 codes: within 1e-9 relative of the real EOTF *)
Theorem C19_code_table_correct : forall c, 0 <= c <= 4095 ->
  exists v, lookup c code_table = Some v /\ cert_code (c, v).
Proof.
  intros c Hc. destruct (complete_spec 4095 code_table ltac:(vm_compute; reflexivity) c Hc) as [v Hv].
  exists v. split; [exact Hv | apply code_entry_cert; exact Hv].
Qed.

(* code -> nits -> code is the identity on all 4096 codes (the implementation's own round trip) *)
Theorem C19_roundtrip_codes : rt_table = map Z.of_nat (seq 0 4096).
Proof. vm_compute. reflexivity. Qed.

Theorem C19_monotone :
  monotone_tab nits_table = true /\ monotone_tab min_table = true /\
  strict_tab code_table = true.
Proof. vm_compute. repeat split; try reflexivity. Qed.

Theorem C19_endpoints :
  lookup 0 code_table = Some (0, 1) /\ lookup 4095 code_table = Some (10000, 1) /\
  lookup 0 nits_table = Some 0 /\ lookup 10000 nits_table = Some 4095.
Proof. vm_compute. repeat split; try reflexivity. Qed.

Theorem C19_anchors :
  lookup 100 nits_table = Some 2081 /\ lookup 600 nits_table = Some 2851 /\
  lookup 1000 nits_table = Some 3079 /\ lookup 4000 nits_table = Some 3696.
Proof. vm_compute. repeat split; try reflexivity. Qed.

(* derived values: the L6 -> source PQ table of level6.rs agrees with the certified tables, and
   every caller of nits_to_pq in level2.rs / xml/parser.rs / generator.rs uses the certified idiom
   round(nits_to_pq(x) * 4095) *)
Theorem C19_derived :
  forallb (fun p => match lookup (fst p) nits_table with Some c => c =? snd p | None => false end) l6_max_arms = true /\
  lookup l6_max_default nits_table <> None /\
  lookup l6_min_eq min_table = Some l6_min_eq_code /\
  (* the `<= 10` arm is Dolby's preset for 0.0001..0.001 nits displays: it is the code of the
     lower end, 0.0001 nits *)
  lookup 1 min_table = Some l6_min_le_code /\ l6_min_le = 10 /\
  forallb (fun s => if string_dec (fst s) "src/dovi/plotter.rs" then true else fst (snd s) =? snd (snd s)) nits_to_pq_sites = true.
Proof. vm_compute. repeat split; try reflexivity; discriminate. Qed.

(* the users of pq_to_nits normalise a 12-bit code by 4095 and by nothing else (regenerated) *)
Theorem C19_code_normalisation :
  forallb (fun s => (snd (snd s) =? 0)%Z) pq_code_norm_sites = true /\
  existsb (fun s => (0 <? fst (snd s))%Z) pq_code_norm_sites = true.
Proof. vm_compute. split; reflexivity. Qed.

(* the summary lines snap luminances by rounding to nearest (x1000 nits for the mastering display peak,
   x100 nits for the L2 targets, 1e-6 for the minimum), never by truncation (regenerated) *)
Theorem C19_summary_rounding :
  forallb (fun s => (snd (snd s) =? 0)%Z) pq_snap_sites = true /\
  forallb (fun s => (3 <=? fst (snd s))%Z) pq_snap_sites = true.
Proof. vm_compute. split; reflexivity. Qed.

(* what is converted: the luminance handed to nits_to_pq at every generating site is the value the documents
   give (target peak and minimum in nits, mastering peak, mastering minimum in 1/10000 nits, L2 target nits,
   HDR10+ scene peak / average rounded to a nit) - not a re-quantised copy of it (regenerated) *)
Theorem C19_conversion_arguments :
  nits_to_pq_args =
  [("dolby_vision/src/xml/parser.rs"%string,
    ["min_display_mastering_luminance as f64 / 10000.0"%string; "max_display_mastering_luminance as f64"%string;
     "target.peak_nits.into()"%string; "target.min_nits"%string]);
   ("dolby_vision/src/rpu/extension_metadata/blocks/level2.rs"%string, ["target_nits.into()"%string]);
   ("src/dovi/generator.rs"%string, ["max_nits.round()"%string; "avg_nits.round()"%string])].
Proof. vm_compute. reflexivity. Qed.

Print Assumptions C19_nits_table_correct.
Print Assumptions C19_code_table_correct.
Print Assumptions C19_roundtrip_codes.
Print Assumptions C19_monotone.
