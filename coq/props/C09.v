(* C09 - the RPU editor applies exactly the configured edits to exactly the configured frames. *)
From Coq Require Import List NArith ZArith Bool String.
From DV Require Import Outcome Bits BitIO Rpu Ops Editor EditorProofs EditorDup.
Import ListNotations.
Open Scope N_scope.

(* no frame disappears silently: output length = frames left by `remove` + duplicated frames *)
Theorem C09_length : forall p c rpus out,
  edit p c rpus = Ok out ->
  exists l1, removed_list c rpus = Ok l1 /\ List.length l1 = List.length rpus /\
    List.length out = (count_some l1 + match e_dups c with Some ds => dup_total ds | None => O end)%nat.
Proof. exact edit_length. Qed.

(* a valid range lies inside the list and is not inverted *)
Theorem C09_checked_range : forall k n a b, checked_range k n = Ok (a, b) -> a <= b /\ b < n.
Proof. exact (@checked_range_valid). Qed.

(* an inverted range or one ending past the last frame is an error of the pass that meets it,
   for scene cuts and active-area edits (range_pass) and for remove *)
Theorem C09_invalid_range_is_error : forall (A V : Type) (f : V -> outcome (A -> outcome A)) k v a b pre post l l1,
  range_pass f pre l = Ok l1 ->
  is_all k = false -> range_tuple k = Ok (a, b) -> (b < a \/ N.of_nat (List.length l) <= b) ->
  range_pass f (pre ++ (k, v) :: post) l = Err.
Proof. exact (@range_pass_invalid). Qed.

Theorem C09_invalid_remove_range_is_error : forall (A : Type) k a b pre post (l l1 : list (option A)),
  remove_frames pre l = Ok l1 ->
  has_dash k = true -> range_tuple k = Ok (a, b) -> (b < a \/ N.of_nat (List.length l) <= b) ->
  remove_frames (pre ++ k :: post) l = Err.
Proof. exact (@remove_frames_invalid_range). Qed.

Theorem C09_invalid_remove_index_is_error : forall (A : Type) k i pre post (l l1 : list (option A)),
  remove_frames pre l = Ok l1 ->
  has_dash k = false -> parse_usize k = Some i -> N.of_nat (List.length l) <= i ->
  remove_frames (pre ++ k :: post) l = Err.
Proof. exact (@remove_frames_invalid_index). Qed.

(* range checks never panic *)
Theorem C09_range_no_panic : forall k n s, checked_range k n <> Panic s.
Proof. exact (@checked_range_no_panic). Qed.

(* inside a range the frame is exactly the operation applied to it; outside it is untouched *)
Theorem C09_range_inside : forall (A : Type) (f : A -> outcome A) a b l i l' (j : nat) v,
  map_range f a b i l = Ok l' -> in_range a b (i + N.of_nat j) = true ->
  nth_error l j = Some (Some v) -> exists v', f v = Ok v' /\ nth_error l' j = Some (Some v').
Proof. exact (@map_range_inside). Qed.

Theorem C09_range_outside : forall (A : Type) (f : A -> outcome A) a b l i l' (j : nat),
  map_range f a b i l = Ok l' -> in_range a b (i + N.of_nat j) = false -> nth_error l' j = nth_error l j.
Proof. exact (@map_range_outside). Qed.

(* with only list-wide range passes configured, a frame that is not removed and lies outside every
   range leaves `execute` exactly as it entered (so it is written from the unmodified RPU) *)
Theorem C09_untouched : forall c rpus l' (j : nat),
  light c -> execute c (map Some rpus) = Ok l' ->
  (match e_cuts c with Some cuts => outside_all cuts (N.of_nat j) | None => True end) ->
  (match e_edits c with Some ed => outside_all ed (N.of_nat j) | None => True end) ->
  exists l1, removed_list c rpus = Ok l1 /\ nth_error l' j = nth_error l1 j.
Proof. exact execute_untouched. Qed.

(* the duplicate pass only adds: the list it receives (what the removals and the per-frame / ranged passes left) is
   a subsequence of the list it returns - no frame disappears, the order is kept - and every frame of the result is
   a frame of that list *)
Theorem C09_duplicates_only_add : forall (B : Type) (ds : list dup) (data out : list B),
  dup_apply ds data = Ok out -> subseq data out /\ (forall x, In x out -> In x data).
Proof. exact (@dup_apply_keeps). Qed.

Print Assumptions C09_length.
Print Assumptions C09_invalid_range_is_error.
Print Assumptions C09_untouched.
Print Assumptions C09_range_inside.
Print Assumptions C09_duplicates_only_add.
