(* C16 - info/export are faithful views: frame JSON, scene list, L5 config, summary. *)
From Coq Require Import List NArith ZArith Bool String Sorting.Sorted.
From DV Require Import Outcome Bits BitIO Rpu Ops Editor Export ExportProofs.
Import ListNotations.
Open Scope N_scope.

(* the scene list holds exactly the 0-based indices of the frames whose flag is 1, ascending *)
Theorem C16_scenes_exact : forall l k,
  In k (scenes l) <-> exists j x, k = N.of_nat j /\ nth_error l j = Some x /\ scene_flag x = true.
Proof. intros l k. unfold scenes. rewrite scenes_from_spec. split; intros (j & x & H & H2); exists j, x; rewrite N.add_0_l in *; auto. Qed.

Theorem C16_scenes_ascending : forall l, StronglySorted N.lt (scenes l).
Proof. intros l. apply scenes_from_sorted. Qed.

(* the summary's scene count is the length of that list *)
Theorem C16_scene_count : forall l, N.of_nat (List.length (scenes l)) = scene_count l.
Proof. intros l. apply scenes_from_length. Qed.

(* the exported L5 config, applied range by range, gives every frame its own offsets back:
   the last edit whose inclusive range contains frame j names a preset equal to the offsets of j *)
Theorem C16_l5_export_reproduces : forall (keys : list l5key) (j : nat) k,
  nth_error keys j = Some k ->
  let rs := runs keys 0 None in
  let ps := add_presets [] rs in
  exists id, last_match (edits_of ps rs (N.of_nat (List.length keys))) (N.of_nat j) None = Some id /\
             nth_error ps id = Some k.
Proof. exact l5_export_reproduces. Qed.

(* MaxCLL / MaxFALL are taken from the maximum over all frames: an upper bound that is attained *)
Theorem C16_l1_max_upper : forall l, Forall (fun v => (v <= zmax_list l)%Z) l.
Proof. exact zmax_list_upper. Qed.
Theorem C16_l1_max_attained : forall l, zmax_list l = 0%Z \/ In (zmax_list l) l.
Proof. exact zmax_list_attained. Qed.

Print Assumptions C16_scenes_exact.
Print Assumptions C16_l5_export_reproduces.
Print Assumptions C16_l1_max_attained.
