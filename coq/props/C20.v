(* C20 - the C API presents the same data as the Rust API and reports failures as errors. *)
From Coq Require Import List NArith ZArith Bool String.
From DV Require Import Outcome Bits BitIO Blocks Rpu Ops CApi.
Import ListNotations.
Open Scope N_scope.

(* every field of the repr(C) mirrors is the Rust field of the same name (translator table):
   a swapped or mis-assigned field breaks this *)
Theorem C20_fields_copied : all_pairs_ok = true.
Proof. exact fields_copied. Qed.
Theorem C20_fields_injective : pairs_injective = true.
Proof. exact fields_injective. Qed.

(* the -1 sentinel never collides with a present value *)
Theorem C20_sentinel_injective : forall a b, c_opt a = c_opt b -> a = b.
Proof. exact c_opt_injective. Qed.
Theorem C20_sentinel_none : forall v, c_opt v = (-1)%Z <-> v = None.
Proof. exact c_opt_none. Qed.

(* L2 / L8 / L10 lists are complete and in order; a single level is null iff absent *)
Theorem C20_lists_complete : forall level d b, In b (c_list level d) <-> In b (all_blocks d) /\ blevel b = level.
Proof. exact c_list_complete. Qed.
Theorem C20_single_null_iff : forall level d, c_single level d = None <-> c_list level d = [].
Proof. exact c_single_null_iff. Qed.

Print Assumptions C20_fields_copied.
Print Assumptions C20_sentinel_injective.
Print Assumptions C20_lists_complete.
