(* C03 - Every emitted RPU is well-formed and decodes to exactly what was written. *)
From Coq Require Import List NArith ZArith Bool String.
From DV Require Import Outcome Bits BitIO Fields Blocks Rpu Ops Tables FieldsProofs C03Proofs.
From DVgen Require Import Blocks_gen DmData_gen Switches_gen.
Import ListNotations.
Open Scope N_scope.

(* what the writer emits for a field program decodes back to the same values: for every program
   (well-formed, ue-free), every length and all values within the fields' Rust types, a successful
   encode is read back field for field, absent (length-dependent) fields coming back as defaults *)
Theorem C03_fields_write_sound : forall p prog len vs w w',
  forallb fld_wf prog = true -> forallb (fun f => negb (is_ue f)) prog = true ->
  all_in_type prog vs = true ->
  enc_fields p prog len vs w = Ok w' ->
  exists bs, w' = wput w bs /\
    forall rest pos, dec_fields p prog len (mkR (bs ++ rest) pos)
                     = Ok (present_vals prog len vs, mkR rest (pos + N.of_nat (List.length bs))).
Proof. exact enc_dec_fields. Qed.

(* a value that does not fit its field is rejected, never truncated or wrapped *)
Theorem C03_unsigned_reject : forall tb n v w, n < tb -> 2 ^ n <= v -> write_n tb n v w = Err.
Proof. exact write_n_rejects. Qed.

(* signed fields narrower than their type are bounded from below by validate() in every level
   that has one (regenerated tables), so the writer's blind spot for v < -2^(w-1) is unreachable *)
Theorem C03_signed_bounded :
  forallb (fun d => negb (desc_needs_bounds d) || desc_bounded d) all_block_descs = true.
Proof. exact blocks_bounded. Qed.

(* block framing: the length byte is bytes_size, padding = 8 * bytes - required bits >= 0, per table *)
Theorem C03_block_tables : forallb desc_compatible all_block_descs = true.
Proof. exact blocks_compatible. Qed.

(* container counts: a container violating the per-level limits is not written *)
Theorem C03_counts_enforced : forall p x out,
  write_rpu_data p src_sw x = Ok out ->
  match rdm x with
  | Some d => match cmv29 d with Some c => container_valid V29 c = true | None => True end /\
              match cmv40 d with Some c => container_valid V40 c = true | None => True end
  | None => True
  end.
Proof. exact write_implies_counts. Qed.

(* no write of any block panics once the length check is in place *)
Theorem C03_write_block_no_panic : forall p b w s, write_block p b w = Panic s -> s = site_ue_write.
Proof. exact write_block_panic_sites. Qed.

Print Assumptions C03_fields_write_sound.
Print Assumptions C03_counts_enforced.
Print Assumptions C03_write_block_no_panic.
