(* C03 - Every emitted RPU is well-formed and decodes to exactly what was written. *)
From Coq Require Import List NArith ZArith Bool String.
From DV Require Import Outcome Bits BitIO Fields Blocks Rpu Ops Tables FieldsProofs C03Proofs RpuRTExample DmWS DmWSExample HeaderWS MappingRT MappingWS RpuWS RpuWSExample.
From DVgen Require Import Consts_gen Blocks_gen DmData_gen Switches_gen.
Import ListNotations.
Open Scope N_scope.

(* what the writer emits for a field program decodes back to the same values: for every program
   (well-formed, ue-free), every length and all values within the fields' Rust types, a successful
   encode is read back field for field, absent (length-dependent) fields coming back as defaults *)
Theorem C03_fields_write_sound : forall p prog len vs w w',
  forallb fld_wf prog = true -> forallb (fun f => negb (is_ue f)) prog = true ->
  all_in_type prog vs = true ->
  enc_fields p prog len vs w = Ok w' ->
  exists bs, w' = wput w bs /\
    forall rest pos, dec_fields p prog len (mkR (bs ++ rest) pos)
                     = Ok (present_vals prog len vs, mkR rest (pos + N.of_nat (List.length bs))).
Proof. exact enc_dec_fields. Qed.

(* a value that does not fit its field is rejected, never truncated or wrapped *)
Theorem C03_unsigned_reject : forall tb n v w, n < tb -> 2 ^ n <= v -> write_n tb n v w = Err.
Proof. exact write_n_rejects. Qed.

(* signed fields narrower than their type are bounded from below by validate() in every level
   that has one (regenerated tables), so the writer's blind spot for v < -2^(w-1) is unreachable *)
Theorem C03_signed_bounded :
  forallb (fun d => negb (desc_needs_bounds d) || desc_bounded d) all_block_descs = true.
Proof. exact blocks_bounded. Qed.

(* block framing: the length byte is bytes_size, padding = 8 * bytes - required bits >= 0, per table *)
Theorem C03_block_tables : forallb desc_compatible all_block_descs = true.
Proof. exact blocks_compatible. Qed.

(* container counts: a container violating the per-level limits is not written *)
Theorem C03_counts_enforced : forall p x out,
  write_rpu_data p src_sw x = Ok out ->
  match rdm x with
  | Some d => match cmv29 d with Some c => container_valid V29 c = true | None => True end /\
              match cmv40 d with Some c => container_valid V40 c = true | None => True end
  | None => True
  end.
Proof. exact write_implies_counts. Qed.

(* no write of any block panics once the length check is in place *)
Theorem C03_write_block_no_panic : forall p b w s, write_block p b w = Panic s -> s = site_ue_write.
Proof. exact write_block_panic_sites. Qed.

(* ------------------------------------------------------------------------------------------
   WRITE SOUNDNESS OF THE DISPLAY-MANAGEMENT PAYLOAD: whatever the writer emits for an extension
   block / a container / the whole DM payload, the parser reads back as exactly what was held in
   memory (length field = byte size of the level, values field for field, padding of
   8 * bytes - required bits zeros, block count, alignment after the count), for every block list,
   every level, every length of the variable-length levels and every following data.  The in-memory
   state is assumed well typed (values within the Rust types of their fields, canonical L11 white
   point / flag split, count = number of blocks: `block_canonical`, `container_ok`, `dm_ok`, all
   decidable and met by every parsed sample).
   ------------------------------------------------------------------------------------------ *)
Theorem C03_block_write_sound : forall p v b w w' d,
  write_block p b w = Ok w' -> desc_of (blevel b) = Some d -> block_canonical d b ->
  mem (blevel b) (parse_levels v) = true -> mem (blevel b) (allowed v) = true ->
  g_block_len_checked_parse = g_block_len_checked_write ->
  exists bs, w' = wput w bs /\
    reads (parse_block Debug v) bs
          (mkBlk (blevel b) (blen b) (present_vals (b_parse d) (blen b) (bvals b)) (bflag b)).
Proof. exact block_write_sound. Qed.

Theorem C03_container_write_sound : forall p v c w w',
  write_container p c w = Ok w' -> container_ok v c -> cnum c + 1 < two64 ->
  g_block_len_checked_parse = g_block_len_checked_write -> g_blocks_alloc_clamped = true ->
  exists bs, w' = wput w bs /\
    forall rest pos, pos mod 8 = wpos w mod 8 ->
      parse_container Debug v (mkR (bs ++ rest) pos)
      = Ok (mkC (cnum c) (map canon_block (cblocks c)), mkR rest (pos + N.of_nat (List.length bs))).
Proof. exact container_write_sound. Qed.

(* the CM v4.0 container is looked for by the parser only when at least 56 bits follow the
   CM v2.9 one: the statement says so, and the writer's guard on data before the CRC keeps the
   emitted RPU on the right side of it *)
Theorem C03_dm_write_sound : forall p h d w w',
  write_dm p d w = Ok w' -> dm_ok h d ->
  g_block_len_checked_parse = g_block_len_checked_write -> g_blocks_alloc_clamped = true ->
  exists bs29 bs40, w' = wput w (bs29 ++ bs40) /\
    (match cmv40 d with Some c => cblocks c <> [] -> (18 <= List.length bs40)%nat | None => bs40 = [] end) /\
    forall rest pos, pos mod 8 = wpos w mod 8 ->
      (match cmv40 d with
       | Some _ => dm_data_payload2_min_bits <= N.of_nat (List.length (bs40 ++ rest))
       | None => N.of_nat (List.length rest) < dm_data_payload2_min_bits
       end) ->
      parse_dm Debug h (mkR ((bs29 ++ bs40) ++ rest) pos)
      = Ok (canon_dm d, mkR rest (pos + N.of_nat (List.length (bs29 ++ bs40)))).
Proof. exact dm_write_sound. Qed.

(* the header: whatever the writer emits for a canonical in-memory header (values within their
   Rust types, derived and not-coded fields as the parser leaves them) is read back as that header *)
Theorem C03_header_write_sound : forall p h w w',
  write_header p h w = Ok w' -> header_canonical h ->
  exists bs, w' = wput w bs /\ reads (parse_header Debug) bs h.
Proof. exact header_write_sound. Qed.

(* the mapping: three curves (pivots; polynomial or MMR pieces of every order, with integer parts
   under coefficient_data_type 0), NLQ header and body: read back as exactly the in-memory mapping.
   mapping_canonical = every value within its type, arrays as long as the piece count, signed
   coefficients below 2^52 (third-party signed exp-Golomb reader), single-method curves. *)
Theorem C03_mapping_write_sound : forall sw h,
  coefficient_log2_denom_length h < 64 -> el_bit_depth_minus8 h + 8 < 16 ->
  (bl_bit_depth_minus8 h + 8) mod 4294967296 < 16 -> 1 <= (bl_bit_depth_minus8 h + 8) mod 4294967296 ->
  forall p m w w',
  write_mapping p sw h m w = Ok w' -> mapping_canonical sw h m ->
  exists bs, w' = wput w bs /\ reads (parse_mapping Debug sw h) bs m.
Proof. exact mapping_write_sound. Qed.

Theorem C03_nlq_write_sound : forall h,
  coefficient_log2_denom_length h < 64 -> el_bit_depth_minus8 h + 8 < 16 ->
  forall p m q w w',
  write_nlq p h m q w = Ok w' -> nlq_canonical h q -> is_some (nlq_method_idc m) = true ->
  exists bs, w' = wput w bs /\ reads (parse_nlq Debug h) bs q.
Proof. exact nlq_write_sound. Qed.

(* ------------------------------------------------------------------------------------------
   THE RPU WRITE-SOUNDNESS THEOREM.  Whatever the writer emits for a canonical in-memory RPU
   (prefix, header, mapping, DM payload, alignment, data before the CRC, CRC-32 over the payload,
   0x80, trailing zero bytes), the parser accepts and returns exactly that RPU, with the CRC the
   writer computed and the modified flag cleared; an unmodified RPU keeps its CRC.  Every profile,
   every number of pivots / pieces / blocks, every length.  rpu_canonical = the typing / shape
   invariants of the in-memory structures (decidable: C03_canonical_decidable; met by the parsed
   FEL sample: C03_sample_is_canonical); it includes what the syntax cannot represent otherwise:
   a CM v4.0 container is non-empty (the parser only looks for it behind >= 56 following bits),
   data before the CRC is a non-empty whole number of bytes, signed coefficients below 2^52.
   ------------------------------------------------------------------------------------------ *)
Theorem C03_rpu_write_sound : forall p sw x out,
  write_rpu_data p sw x = Ok out -> rpu_canonical sw x ->
  exists crc, parse_inner Debug sw out = Ok (reparsed x crc) /\ (modified x = false -> crc = rpu_crc x).
Proof. exact rpu_write_sound. Qed.

Theorem C03_canonical_decidable : forall sw x, rpu_canonicalb sw x = true -> rpu_canonical sw x.
Proof. exact rpu_canonicalb_ok. Qed.

Example C03_sample_is_canonical :
  match parse_inner Debug src_sw fel_sample with
  | Ok x => rpu_canonicalb src_sw x = true
  | _ => False
  end.
Proof. exact fel_sample_is_canonical. Qed.

Theorem C03_switches_as_assumed :
  g_block_len_checked_parse = g_block_len_checked_write /\ g_blocks_alloc_clamped = true.
Proof. vm_compute. auto. Qed.

Theorem C03_dm_ok_decidable : forall h d, dm_okb h d = true -> dm_ok h d.
Proof. exact dm_okb_sound. Qed.

Example C03_sample_dm_is_ok :
  match parse_inner Debug src_sw fel_sample with
  | Ok x => match rdm x with Some d => dm_okb (hdr x) d = true | None => False end
  | _ => False
  end.
Proof. exact fel_sample_dm_ok. Qed.

Print Assumptions C03_fields_write_sound.
Print Assumptions C03_dm_write_sound.
Print Assumptions C03_rpu_write_sound.
Print Assumptions C03_counts_enforced.
Print Assumptions C03_write_block_no_panic.
