(* C04 - Profile conversion modes do what is documented and preserve dynamic metadata. *)
From Coq Require Import List NArith ZArith Bool String.
From DV Require Import Outcome Bits BitIO Fields Blocks Rpu Ops C04Proofs C04Idem.
From DVgen Require Import Modes_gen.
Import ListNotations.
Open Scope N_scope.

(* a mode number means the same conversion on every surface: the integer table used by the
   editor / library (From<u8>) agrees with the CLI table (`-m`) on 0..5 (tables regenerated) *)
Theorem C04_surfaces : forall n, n <= 5 -> Some (mode_of_u8 n) = mode_of_cli n.
Proof. exact surfaces_agree. Qed.

(* the CLI table is the documented numbering *)
Theorem C04_cli_table : mode_from_cli = [(0, 0); (1, 1); (2, 2); (3, 2); (4, 3); (5, 4)].
Proof. vm_compute. reflexivity. Qed.

(* every conversion leaves the extension blocks of both containers, the three metadata ids and
   every DM field other than the colour matrices / signal_color_space untouched *)
Theorem C04_dm_preserved : forall x m y, convert_with_mode x m = Ok y ->
  option_map cmv29 (rdm y) = option_map cmv29 (rdm x) /\
  option_map cmv40 (rdm y) = option_map cmv40 (rdm x) /\
  option_map dm_ids (rdm y) = option_map dm_ids (rdm x) /\
  option_map dm_compressed (rdm y) = option_map dm_compressed (rdm x) /\
  forall name, In name kept_names ->
    option_map (fun d => dm_field d name) (rdm y) = option_map (fun d => dm_field d name) (rdm x).
Proof. exact convert_dm_preserved. Qed.

(* unsupported source profiles are errors, exactly per the documented table; mode numbers beyond
   the five conversions are errors *)
Theorem C04_support_table : forall x m, is_ok (convert_with_mode x m) = true ->
  (m = 1 \/ m = 4 -> dovi_profile x = 7 \/ dovi_profile x = 8) /\
  (m = 2 -> dovi_profile x = 5 \/ dovi_profile x = 7 \/ dovi_profile x = 8) /\
  m <= 4.
Proof. exact convert_support. Qed.

(* mode 0 is the identity *)
Theorem C04_lossless_identity : forall x,
  dovi_profile x = get_dovi_profile (hdr x) -> el_type x = el_type_of (rmapping x) ->
  convert_with_mode x 0 = Ok x.
Proof. exact lossless_identity. Qed.

(* target form: mode 1 switches the enhancement layer on; modes 2, 4 (8.1) and 3 (8.4) give a
   profile 8 RPU without enhancement layer *)
Theorem C04_target_profile : forall x m y, convert_with_mode x m = Ok y ->
  (m = 1 -> el_spatial_resampling_filter_flag (hdr y) = true /\ disable_residual_flag (hdr y) = false) /\
  (m = 3 -> dovi_profile y = 8 /\ el_type y = None) /\
  ((m = 2 \/ m = 4) -> vdr_rpu_profile (hdr x) = 1 \/ dovi_profile x = 5 -> dovi_profile y = 8 /\ el_type y = None).
Proof. exact convert_target_profile. Qed.

(* CONVERTING TWICE WITH THE SAME MODE EQUALS CONVERTING ONCE, for every RPU whose cached profile
   and EL type are those of its header and mapping (every parsed RPU: C04_parsed_consistent) and
   every mode: whenever the second conversion succeeds it changes nothing ... *)
Theorem C04_idempotent : forall x m y y',
  consistent x -> convert_with_mode x m = Ok y -> convert_with_mode y m = Ok y' -> y' = y.
Proof. exact convert_idempotent. Qed.

(* ... and it does succeed (mode 1: when the VDR bit depth is the 12 bits of profile 7; a MEL
   header with another depth is not a profile the tool knows, and the second call is an error) *)
Theorem C04_convert_twice : forall x m y,
  consistent x -> convert_with_mode x m = Ok y ->
  (m = 1 -> vdr_bit_depth_minus8 (hdr x) = 4) ->
  convert_with_mode y m = Ok y.
Proof. exact convert_twice. Qed.

Theorem C04_parsed_consistent : forall p sw data x, parse_rpu p sw data = Ok x -> consistent x.
Proof. exact parse_rpu_consistent. Qed.

Print Assumptions C04_surfaces.
Print Assumptions C04_convert_twice.
Print Assumptions C04_dm_preserved.
Print Assumptions C04_target_profile.
