(* C18 - --drop-hdr10plus removes exactly the HDR10+ SEI messages. *)
From Coq Require Import List NArith ZArith Bool.
From DV Require Import Outcome Bits Escape BitIO Stream SeiProofs.
Import ListNotations.
Open Scope N_scope.

(* a NAL without HDR10+ message is left alone: no replacement, not dropped *)
Theorem C18_untouched : forall nalbytes msgs,
  (4 <= List.length (unescape nalbytes))%nat ->
  parse_sei_rbsp (unescape nalbytes) = Some msgs ->
  find (is_hdr10plus (unescape nalbytes)) msgs = None ->
  remove_hdr10plus nalbytes = Ok (false, None).
Proof. exact untouched_without_hdr10plus. Qed.

(* the only message: the NAL is dropped *)
Theorem C18_only_message_dropped : forall nalbytes m,
  (4 <= List.length (unescape nalbytes))%nat ->
  parse_sei_rbsp (unescape nalbytes) = Some [m] -> is_hdr10plus (unescape nalbytes) m = true ->
  remove_hdr10plus nalbytes = Ok (true, None).
Proof. exact only_message_dropped. Qed.

(* several messages: the rewritten NAL is the escaped form of the payload with exactly the byte
   range of the HDR10+ message (type bytes, size bytes, payload) cut out *)
Theorem C18_rewrite_cuts_message : forall nalbytes msgs m,
  (4 <= List.length (unescape nalbytes))%nat ->
  parse_sei_rbsp (unescape nalbytes) = Some msgs -> (1 < List.length msgs)%nat ->
  find (is_hdr10plus (unescape nalbytes)) msgs = Some m ->
  remove_hdr10plus nalbytes =
    Ok (true, Some (escape (firstn (m_off m) (unescape nalbytes) ++
                            skipn (m_poff m + m_size m) (unescape nalbytes)))).
Proof. exact rewrite_cuts_message. Qed.

(* messages are laid out back to back: each parsed message starts where the previous one ended *)
Theorem C18_messages_contiguous : forall fuel off l msgs,
  parse_sei_messages fuel off l = Some msgs -> contiguous off msgs.
Proof. exact messages_contiguous. Qed.

(* the rewritten NAL, read back (un-escaped and walked again), holds exactly the other messages:
   same order, types, sizes and payload bytes (those after the cut moved down by the removed
   length); and when the removed message was the only HDR10+ one, no HDR10+ message remains *)
Theorem C18_rewritten_nal_reparses : forall nalbytes msgs m,
  let data := unescape nalbytes in
  (4 <= List.length data)%nat ->
  parse_sei_rbsp data = Some msgs -> (1 < List.length msgs)%nat ->
  find (is_hdr10plus data) msgs = Some m ->
  exists pre post out,
    msgs = pre ++ m :: post /\
    remove_hdr10plus nalbytes = Ok (true, Some out) /\
    let data' := unescape out in
    let post' := map (shift (m_poff m + m_size m - m_off m)) post in
    parse_sei_rbsp data' = Some (pre ++ post') /\
    (forall x, In x pre -> payload data' x = payload data x) /\
    (forall x, In x post -> payload data' (shift (m_poff m + m_size m - m_off m) x) = payload data x) /\
    ((forall x, In x post -> is_hdr10plus data x = false) ->
     forall y, In y (pre ++ post') -> is_hdr10plus data' y = false).
Proof. exact rewritten_nal_reparses. Qed.

Print Assumptions C18_rewrite_cuts_message.
Print Assumptions C18_rewritten_nal_reparses.
