(* C13 - Start-code emulation prevention is exact and output NAL framing is unambiguous.
   Property theorems only; proofs live in DV.Escape. *)
From Coq Require Import List NArith.
From DV Require Import Outcome Bits Escape BitIO Fields Blocks Rpu RpuWS C13Site.
Import ListNotations.
Open Scope N_scope.

(* removing emulation-prevention bytes from the escaped form returns the payload exactly,
   for every payload whose first byte is non-zero (an RPU starts with 0x19) *)
Theorem C13_unescape_escape : forall l, hd 1 l <> 0 -> unescape (escape l) = l.
Proof. exact unescape_escape. Qed.

(* the written NAL (7C 01 ++ escaped payload) contains no byte-aligned 00 00 {00,01,02} *)
Theorem C13_no_forbidden_triple : forall l,
  hd 1 l <> 0 -> no_start_code_emulation (124 :: 1 :: escape l) = true.
Proof. exact nal_no_start_code_emulation. Qed.

(* every 00 00 03 in the written NAL is an escape: it is followed by a byte <= 3 or ends it *)
Theorem C13_03_is_escape : forall l,
  hd 1 l <> 0 -> esc03_ok 1 1 (124 :: 1 :: escape l) = true.
Proof. exact nal_03_is_escape. Qed.

(* the escaped form of any payload is canonically escaped (escape . unescape is the identity on it) *)
Theorem C13_escape_canonical : forall l, hd 1 l <> 0 -> canonically_escaped (escape l) = true.
Proof. exact escape_canonical. Qed.

(* AT THE CALL SITE: the NAL the library writes for any canonical in-memory RPU is 7C 01 followed by the escaping of
   the whole RPU payload (prefix, data, CRC-32, final byte, trailing zeros - one pass over all of it): it holds no
   start code emulation, every 00 00 03 in it is an escape, and un-escaping what follows the NAL header returns
   the payload *)
Theorem C13_written_nal_clean : forall p sw x nal,
  write_hevc_unspec62_nalu p sw x = Ok nal -> rpu_canonical sw x ->
  exists payload,
    write_rpu_data p sw x = Ok payload /\ nal = 124 :: 1 :: escape payload /\
    no_start_code_emulation nal = true /\ esc03_ok 1 1 nal = true /\
    unescape (skipn 2 nal) = payload.
Proof. exact written_nal_clean. Qed.

(* non-vacuity: a payload with zero runs, a literal 00 00 03 and trailing zeros *)
Example C13_example :
  let l := [25; 0; 0; 0; 1; 0; 0; 3; 0; 0; 2; 128; 0; 0] in
  hd 1 l <> 0 /\ escape l = [25; 0; 0; 3; 0; 1; 0; 0; 3; 3; 0; 0; 3; 2; 128; 0; 0]
  /\ unescape (escape l) = l.
Proof. cbn. repeat split; discriminate || reflexivity. Qed.

(* the i > 2 guard of the code makes the round trip false for payloads starting 00 00 0x;
   irrelevant for RPUs (0x19) and recorded so the side condition above is seen to be needed *)
Example C13_refuted_leading_zero : unescape (escape [0; 0; 3; 7]) <> [0; 0; 3; 7].
Proof. vm_compute. discriminate. Qed.

Print Assumptions C13_unescape_escape.
Print Assumptions C13_written_nal_clean.
Print Assumptions C13_no_forbidden_triple.
Print Assumptions C13_03_is_escape.
Print Assumptions C13_escape_canonical.
