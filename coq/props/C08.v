(* C08 - Parsing untrusted bytes always returns: no panic, abort, hang or huge allocation.
   The model carries every panic site of the parse paths as a `Panic` outcome; the guards that
   turn them into errors are read from the source on every run (DVgen.Switches_gen). *)
From Coq Require Import List NArith ZArith Bool String.
From DV Require Import Outcome Bits BitIO Av1 Fields Blocks Rpu Tables C08Proofs.
From DVgen Require Import Consts_gen Blocks_gen DmData_gen Switches_gen.
Import ListNotations.
Open Scope N_scope.

(* every guard is present in the current source tree *)
Theorem C08_guards_present : switches_all_fixed = true.
Proof. exact source_switches_fixed. Qed.

(* the length sets accepted by validate_length are exactly those required_bits() knows, so the
   unreachable!() arms cannot be reached from a parsed length *)
Theorem C08_block_lengths_closed : length_sets_ok = true.
Proof. exact validate_length_sets_ok. Qed.

(* a block parse never panics, for every byte string and both profiles, outside the
   third-party exp-Golomb shift on 64 leading zeros (known finding, Debug profile only) *)
Theorem C08_parse_block_no_model_panic : forall p v r s,
  parse_block p v r = Panic s -> s = site_ue_shift.
Proof. exact parse_block_panic_sites. Qed.

(* the EMDF size field reader is total: it returns a value or an error, never panics *)
Theorem C08_variable_bits_no_panic : forall fuel n value r s,
  parse_variable_bits_loop fuel n value r <> Panic s.
Proof. exact pvb_no_panic. Qed.

(* progress: every iteration of the data-bounded loops consumes input, so the fuel (input length
   + 1) is never the reason for an error: reading n bits shortens the input by n *)
Theorem C08_get_n_consumes : forall tb n r v r',
  get_n tb n r = Ok (v, r') -> (List.length (rbits r') + N.to_nat n = List.length (rbits r))%nat.
Proof. exact get_n_consumes. Qed.

Print Assumptions C08_parse_block_no_model_panic.
Print Assumptions C08_variable_bits_no_panic.
