(* C06 - mux and demux are inverse; layers stay frame-aligned. *)
From Coq Require Import List NArith ZArith Bool.
From DV Require Import Outcome Bits BitIO Rpu Stream Order Mux MuxProofs.
Import ListNotations.
Open Scope N_scope.

(* EL NALs other than the RPU are written wrapped with the UNSPEC63 header 7E 01, unchanged *)
Theorem C06_el_wrapped : forall p o n t d,
  el_buf p o n = Ok (Some (t, d)) -> ntype n <> 62 -> t = ntype n /\ d = 126 :: 1 :: ndata n.
Proof. exact el_buf_wrapped. Qed.

(* --discard keeps only the RPU of the EL *)
Theorem C06_discard : forall p o n, mo_discard o = true -> ntype n <> 62 -> el_buf p o n = Ok None.
Proof. exact el_buf_discard. Qed.

(* without a conversion mode the RPU NAL is copied verbatim *)
Theorem C06_rpu_passthrough : forall p o n,
  ntype n = 62 -> mo_mode o = None -> el_buf p o n = Ok (Some (62, ndata n)).
Proof. exact el_buf_rpu_passthrough. Qed.

(* the EL frame queue neither loses nor reorders NALs, whatever batch the reader hands it: after a
   batch with non-decreasing frame indices the concatenation of the queued frames is the old
   concatenation followed by the NALs kept from the batch, keys stay strictly increasing *)
Theorem C06_el_queue_conserves : forall p o b q m q',
  keys_inc q -> keys_le q m -> idx_sorted_from m b ->
  el_process p o q b = Ok q' ->
  exists kept, el_kept p o b = Ok kept /\
    concat (map snd q') = concat (map snd q) ++ kept /\ keys_inc q' /\
    (List.length q <= List.length q')%nat.
Proof. exact el_process_concat. Qed.

Print Assumptions C06_el_wrapped.
Print Assumptions C06_el_queue_conserves.
Print Assumptions C06_discard.
Print Assumptions C06_rpu_passthrough.
