(* C06 - mux and demux are inverse; layers stay frame-aligned. *)
From Coq Require Import List NArith ZArith Bool.
From DV Require Import Outcome Bits BitIO Rpu Stream Order Mux MuxProofs MuxAlign.
Import ListNotations.
Open Scope N_scope.

(* EL NALs other than the RPU are written wrapped with the UNSPEC63 header 7E 01, unchanged *)
Theorem C06_el_wrapped : forall p o n t d,
  el_buf p o n = Ok (Some (t, d)) -> ntype n <> 62 -> t = ntype n /\ d = 126 :: 1 :: ndata n.
Proof. exact el_buf_wrapped. Qed.

(* --discard keeps only the RPU of the EL *)
Theorem C06_discard : forall p o n, mo_discard o = true -> ntype n <> 62 -> el_buf p o n = Ok None.
Proof. exact el_buf_discard. Qed.

(* without a conversion mode the RPU NAL is copied verbatim *)
Theorem C06_rpu_passthrough : forall p o n,
  ntype n = 62 -> mo_mode o = None -> el_buf p o n = Ok (Some (62, ndata n)).
Proof. exact el_buf_rpu_passthrough. Qed.

(* the EL frame queue neither loses nor reorders NALs, whatever batch the reader hands it: after a
   batch with non-decreasing frame indices the concatenation of the queued frames is the old
   concatenation followed by the NALs kept from the batch, keys stay strictly increasing *)
Theorem C06_el_queue_conserves : forall p o b q m q',
  keys_inc q -> keys_le q m -> idx_sorted_from m b ->
  el_process p o q b = Ok q' ->
  exists kept, el_kept p o b = Ok kept /\
    concat (map snd q') = concat (map snd q) ++ kept /\ keys_inc q' /\
    (List.length q <= List.length q')%nat.
Proof. exact el_process_concat. Qed.

(* ALIGNMENT, for every batching of the EL reader: the muxer (BL frame buffer flushed on a change of
   frame index; EL frame queue refilled on demand by a resumable reader that stops at the first
   batch showing a later frame; front frame written only when a later frame is queued, or at the
   end) writes exactly what the aligned specification writes, where the EL is just the list of its
   frames (groups_of) and a counter: the w-th flushed BL frame is followed by the w-th EL frame,
   complete, and the mismatch error is raised exactly when EL frames are left over.
   Hypothesis: the per-NAL treatment (wrapping / RPU conversion) succeeds for every EL NAL. *)
Theorem C06_mux_refines_aligned : forall p o bl batches all,
  to_enals p o (assign_indices ps0 (concat batches)) = Ok all ->
  mux p o bl batches = mux_aligned p o bl (concat batches).
Proof. exact mux_refines_aligned. Qed.

(* hence the output does not depend on where the EL file's read boundaries fall *)
Theorem C06_batching_irrelevant : forall p o bl b1 b2 all,
  concat b1 = concat b2 -> to_enals p o (assign_indices ps0 (concat b1)) = Ok all ->
  mux p o bl b1 = mux p o bl b2.
Proof. exact mux_batching_irrelevant. Qed.

(* a queued frame that is not the last one can no longer change: the frames of a prefix of the EL
   are frames of the whole EL, except possibly the last *)
Theorem C06_el_frames_complete : forall C D (t : nat),
  mono_from 0 (C ++ D) -> (S t < List.length (groups_of C))%nat ->
  nth_error (groups_of (C ++ D)) t = nth_error (groups_of C) t.
Proof. exact groups_complete. Qed.

Print Assumptions C06_el_wrapped.
Print Assumptions C06_mux_refines_aligned.
Print Assumptions C06_el_queue_conserves.
Print Assumptions C06_discard.
Print Assumptions C06_rpu_passthrough.
