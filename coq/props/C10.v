(* C10 - generator output matches its config: frame count, scene cuts, block precedence. *)
From Coq Require Import List NArith ZArith Bool String.
From DV Require Import Outcome Bits BitIO Blocks Rpu Ops Editor Generator GeneratorProofs GeneratorPrec.
Import ListNotations.
Open Scope N_scope.

(* generation either fails or writes exactly `length` RPUs, the sum of the shot durations *)
Theorem C10_frame_count : forall p c olong base out,
  generate p c olong base = Ok out ->
  exists c', cli_prepare c olong = Ok c' /\ List.length out = N.to_nat (g_length c') /\ g_length c' = sum_dur (g_shots c').
Proof. exact generate_count. Qed.

(* L1 values are clamped into their legal ranges, legal values are kept, other levels untouched *)
Theorem C10_l1_clamped : forall v40 ln mn mx av fl,
  exists mn' mx' av', clamp_l1 v40 (mkBlk 1 ln [mn; mx; av] fl) = mkBlk 1 ln [mn'; mx'; av'] fl /\
    (0 <= mn' <= 12)%Z /\ (2081 <= mx' <= 4095)%Z /\ ((if v40 then 1229 else 819) <= av' < mx')%Z.
Proof. exact clamp_l1_legal. Qed.

Theorem C10_l1_legal_kept : forall (v40 : bool) (ln : N) (mn mx av : Z) (fl : bool),
  (0 <= mn <= 12)%Z -> (2081 <= mx <= 4095)%Z -> ((if v40 then 1229 else 819) <= av < mx)%Z ->
  clamp_l1 v40 (mkBlk 1 ln [mn; mx; av] fl) = mkBlk 1 ln [mn; mx; av] fl.
Proof. exact clamp_l1_legal_id. Qed.

Theorem C10_clamp_other_levels : forall v40 b, blevel b <> 1 -> clamp_l1 v40 b = b.
Proof. exact clamp_l1_other. Qed.

(* the scene-cut flag is set exactly on the first frame of a shot (on every frame in long-play
   mode); shot blocks and frame edits never change it *)
Theorem C10_scene_cut : forall long s i d d' a c f t,
  dm_ids d = a :: c :: f :: t -> frame_dm long s i d = Ok d' ->
  scene_flag_dm d' = Some (if (i =? 0) || long then 1 else f).
Proof. exact frame_dm_scene_flag. Qed.

(* LAST WRITER WINS: a list of overrides (replace_metadata_block each) applied in order to DM data holding every
   key (level, target) at most once leaves, under every key, the last block of the list with that key - stored
   only if the container of its level exists - and leaves every key the list does not name as it was; keys stay
   unique (an override never adds a second block for a key) *)
Theorem C10_last_writer : forall bs d d', uniq_keys d -> dm_replace_blocks d bs = Ok d' ->
  uniq_keys d' /\
  forall k, key_blocks d' k = match last_writer k bs with
                              | Some b => if has_cont d (fst k) then [b] else []
                              | None => key_blocks d k
                              end
            /\ has_cont d' (fst k) = has_cont d (fst k).
Proof. exact replace_blocks_last_writer. Qed.

(* BLOCK PRECEDENCE: frame i of shot s carries, under every key, the last block with that key in
     [config L5 (or zero offsets)] ++ [config L6] ++ default blocks (other than L5 / L6) ++ shot blocks ++ frame edit at offset i
   and, under the keys none of them names, the block of the profile's base DM data (its L9, L11, L254, ...) *)
Theorem C10_precedence : forall c d0 ds long s i d',
  uniq_keys d0 -> static_dm c d0 = Ok ds -> frame_dm long s i ds = Ok d' ->
  uniq_keys d' /\
  forall k, key_blocks d' k = writer_view d0 (static_list c ++ s_blocks s ++ edit_blocks s i) k.
Proof. exact frame_precedence. Qed.

(* the hypothesis on the base DM data is decidable (the check evaluates it on the base RPU of every profile) *)
Theorem C10_uniq_decidable : forall d, uniq_check d = true -> uniq_keys d.
Proof. exact uniq_check_sound. Qed.

(* and satisfiable, with a frame on which all four layers act *)
Theorem C10_precedence_instance :
  uniq_check ex_d0 = true /\
  exists ds d', static_dm ex_cfg ex_d0 = Ok ds /\ frame_dm false ex_shot 1 ds = Ok d' /\
    key_blocks d' (2, 2081%Z) = [ex_l2 2081 7] /\ key_blocks d' (2, 3079%Z) = [ex_l2 3079 8] /\
    key_blocks d' (5, 0%Z) = [l5_block 0 0 10 10] /\ key_blocks d' (254, 0%Z) = [default_block 254] /\
    okey (ex_l2 3079 8) = (2, 3079%Z).
Proof. exact precedence_instance. Qed.

Print Assumptions C10_frame_count.
Print Assumptions C10_last_writer.
Print Assumptions C10_precedence.
Print Assumptions C10_l1_clamped.
Print Assumptions C10_scene_cut.
