(* C10 - generator output matches its config: frame count, scene cuts, block precedence. *)
From Coq Require Import List NArith ZArith Bool String.
From DV Require Import Outcome Bits BitIO Blocks Rpu Ops Editor Generator GeneratorProofs.
Import ListNotations.
Open Scope N_scope.

(* generation either fails or writes exactly `length` RPUs, the sum of the shot durations *)
Theorem C10_frame_count : forall p c olong base out,
  generate p c olong base = Ok out ->
  exists c', cli_prepare c olong = Ok c' /\ List.length out = N.to_nat (g_length c') /\ g_length c' = sum_dur (g_shots c').
Proof. exact generate_count. Qed.

(* L1 values are clamped into their legal ranges, legal values are kept, other levels untouched *)
Theorem C10_l1_clamped : forall v40 ln mn mx av fl,
  exists mn' mx' av', clamp_l1 v40 (mkBlk 1 ln [mn; mx; av] fl) = mkBlk 1 ln [mn'; mx'; av'] fl /\
    (0 <= mn' <= 12)%Z /\ (2081 <= mx' <= 4095)%Z /\ ((if v40 then 1229 else 819) <= av' < mx')%Z.
Proof. exact clamp_l1_legal. Qed.

Theorem C10_l1_legal_kept : forall (v40 : bool) (ln : N) (mn mx av : Z) (fl : bool),
  (0 <= mn <= 12)%Z -> (2081 <= mx <= 4095)%Z -> ((if v40 then 1229 else 819) <= av < mx)%Z ->
  clamp_l1 v40 (mkBlk 1 ln [mn; mx; av] fl) = mkBlk 1 ln [mn; mx; av] fl.
Proof. exact clamp_l1_legal_id. Qed.

Theorem C10_clamp_other_levels : forall v40 b, blevel b <> 1 -> clamp_l1 v40 b = b.
Proof. exact clamp_l1_other. Qed.

(* the scene-cut flag is set exactly on the first frame of a shot (on every frame in long-play
   mode); shot blocks and frame edits never change it *)
Theorem C10_scene_cut : forall long s i d d' a c f t,
  dm_ids d = a :: c :: f :: t -> frame_dm long s i d = Ok d' ->
  scene_flag_dm d' = Some (if (i =? 0) || long then 1 else f).
Proof. exact frame_dm_scene_flag. Qed.

Print Assumptions C10_frame_count.
Print Assumptions C10_l1_clamped.
Print Assumptions C10_scene_cut.
