(* C05 - HEVC pass-through commands neither lose, alter nor reorder NAL units. *)
From Coq Require Import List NArith ZArith Bool.
From DV Require Import Outcome Bits BitIO Rpu Ops Stream StreamProofs.
Import ListNotations.
Open Scope N_scope.

(* convert without mode / options reproduces the NAL sequence: every input NAL is written once, in
   order, payload unchanged -- for every stream and every batching of it *)
Theorem C05_convert_identity : forall p batches out,
  run_stream p WSingle (mkOpts None false false false false) batches = Ok out ->
  map snd (out_main out) = map ndata (concat batches) /\ map snd (out_el out) = [] /\ out_rpu out = [].
Proof. exact convert_identity. Qed.

(* the result does not depend on where batch (read chunk) boundaries fall, as far as NAL
   payloads and their order are concerned *)
Theorem C05_batching_irrelevant : forall p cfg o batches out,
  run_stream p cfg o batches = Ok out ->
  exists out1, run_stream p cfg o [concat batches] = Ok out1 /\ erase out1 = erase out.
Proof. exact batching_irrelevant. Qed.

(* stronger: for every batching, the routed payload sequences (and the error / panic outcome) are
   those of the flat specification `route_spec`, a single pass over the NAL list *)
Theorem C05_route_refines_spec : forall p cfg o batches,
  omap erase (run_stream p cfg o batches) = route_spec p cfg o (concat batches).
Proof. exact route_refines_spec. Qed.

(* with --start-code four every written start code has 4 bytes *)
Theorem C05_four_byte_start_codes : forall p cfg o batches out,
  o_annexb o = false -> run_stream p cfg o batches = Ok out ->
  Forall (fun w => fst w = 4) (out_main out) /\ Forall (fun w => fst w = 4) (out_el out).
Proof. exact four_byte_start_codes. Qed.

Print Assumptions C05_convert_identity.
Print Assumptions C05_batching_irrelevant.
