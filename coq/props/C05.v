(* C05 - HEVC pass-through commands neither lose, alter nor reorder NAL units. *)
From Coq Require Import List NArith ZArith Bool.
From DV Require Import Outcome Bits BitIO Rpu Ops Stream StreamProofs Splitter SplitterProofs.
Import ListNotations.
Open Scope N_scope.

(* convert without mode / options reproduces the NAL sequence: every input NAL is written once, in
   order, payload unchanged -- for every stream and every batching of it *)
Theorem C05_convert_identity : forall p batches out,
  run_stream p WSingle (mkOpts None false false false false) batches = Ok out ->
  map snd (out_main out) = map ndata (concat batches) /\ map snd (out_el out) = [] /\ out_rpu out = [].
Proof. exact convert_identity. Qed.

(* the result does not depend on where batch (read chunk) boundaries fall, as far as NAL
   payloads and their order are concerned *)
Theorem C05_batching_irrelevant : forall p cfg o batches out,
  run_stream p cfg o batches = Ok out ->
  exists out1, run_stream p cfg o [concat batches] = Ok out1 /\ erase out1 = erase out.
Proof. exact batching_irrelevant. Qed.

(* stronger: for every batching, the routed payload sequences (and the error / panic outcome) are
   those of the flat specification `route_spec`, a single pass over the NAL list *)
Theorem C05_route_refines_spec : forall p cfg o batches,
  omap erase (run_stream p cfg o batches) = route_spec p cfg o (concat batches).
Proof. exact route_refines_spec. Qed.

(* with --start-code four every written start code has 4 bytes *)
Theorem C05_four_byte_start_codes : forall p cfg o batches out,
  o_annexb o = false -> run_stream p cfg o batches = Ok out ->
  Forall (fun w => fst w = 4) (out_main out) /\ Forall (fun w => fst w = 4) (out_el out).
Proof. exact four_byte_start_codes. Qed.

(* BYTES -> NAL BATCHES (hevc_parser's chunked Annex B reader under dovi_tool's chunk size): for every
   chunk size >= 1 and every way the input arrives in reads - a read shorter than the chunk size only at
   the end of the input, as a file and a drained pipe deliver it - the NALs handed to the command, batch
   after batch, are the NALs of the whole input split in one piece: no NAL is lost, duplicated, cut or
   merged at a chunk boundary, wherever start codes (3 or 4 bytes) fall relative to it. Together with
   C05_route_refines_spec (any batching = the flat spec) the outputs do not depend on the chunk size. *)
Theorem C05_reader_chunk_invariant : forall cs reads,
  (1 <= cs)%nat -> schedule_ok cs reads ->
  concat (parse_nalus cs reads) = split_whole (concat reads).
Proof. exact parse_nalus_chunk_invariant. Qed.

(* a file read through a reader that fills every request until the end of the file *)
Theorem C05_file_chunk_size_irrelevant : forall cs file,
  (1 <= cs)%nat -> concat (parse_nalus cs (read_file cs file)) = split_whole file.
Proof. exact read_file_chunk_invariant. Qed.

(* the hypothesis on the reads is exactly what is needed: one short read in the middle of the input is
   taken for its end and a NAL is cut in two (what a reader buffer smaller than the request produces) *)
Theorem C05_short_read_breaks_it :
  let file := [0;0;1;64;1;7;7;7;7; 0;0;1;66;1;9] in
  concat (parse_nalus 8 [firstn 6 file; skipn 6 file]) <> split_whole file
  /\ concat (parse_nalus 8 (read_file 8 file)) = split_whole file.
Proof. exact short_read_in_the_middle. Qed.

(* PIPED STDIN, ARBITRARILY FRAGMENTED: whatever fragments the read() calls on the pipe return (the end of
   the input being final), the accumulation loop of the reader forms an admissible schedule, so the NALs
   handed over are those of the whole stream - the same as for the stream read from a file, for any two
   chunk sizes *)
Theorem C05_stdin_chunk_invariant : forall cs frags,
  (1 <= cs)%nat -> eof_sticky frags ->
  concat (parse_nalus cs (read_stdin cs frags)) = split_whole (concat frags).
Proof. exact read_stdin_chunk_invariant. Qed.

Theorem C05_file_and_pipe_agree : forall cs1 cs2 frags, (1 <= cs1)%nat -> (1 <= cs2)%nat -> eof_sticky frags ->
  concat (parse_nalus cs1 (read_stdin cs1 frags)) = concat (parse_nalus cs2 (read_file cs2 (concat frags))).
Proof. exact file_and_pipe_agree. Qed.

(* a pipe handled like a file (one fragment per iteration, no accumulation) loses data *)
Theorem C05_pipe_read_as_file_breaks :
  let file := [0;0;1;64;1;7;7;7;7; 0;0;1;66;1;9] in
  let frags := [firstn 6 file; skipn 6 file; []] in
  eof_sticky frags /\
  concat (parse_nalus 8 frags) <> split_whole file /\
  concat (parse_nalus 8 (read_stdin 8 frags)) = split_whole file.
Proof. exact pipe_read_as_file_breaks. Qed.

Print Assumptions C05_convert_identity.
Print Assumptions C05_stdin_chunk_invariant.
Print Assumptions C05_file_and_pipe_agree.
Print Assumptions C05_reader_chunk_invariant.
Print Assumptions C05_file_chunk_size_irrelevant.
Print Assumptions C05_batching_irrelevant.
