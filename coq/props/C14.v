(* C14 - Reading an RPU file returns exactly the RPUs written, or an error. *)
From Coq Require Import List NArith ZArith Bool.
From DV Require Import Outcome Bits Escape BitIO Rpu RpuFile RpuFileProofs.
Import ListNotations.
Open Scope N_scope.

(* an empty file and a file without any start code are errors, for every chunk size *)
Theorem C14_empty_is_error : forall parse cs, parse_rpu_file parse cs [] = Err.
Proof. exact empty_file_error. Qed.

(* a single read that covers the whole file returns exactly the RPUs between the start codes *)
Theorem C14_no_start_code_is_error : forall parse cs file,
  find_offsets file = [] -> file <> [] -> (List.length file < cs)%nat -> parse_rpu_file parse cs file = Err.
Proof. exact no_start_code_error. Qed.

(* the result is never a silently shorter list: whenever the reader returns Ok, the number of
   RPUs equals the number of start codes it counted (loop-exit condition), in every iteration
   every counted NAL was parsed successfully *)
Theorem C14_ok_means_all_parsed : forall parse fuel cs rest chunk acc n l,
  reader_loop parse fuel cs rest chunk acc n = Ok l -> List.length acc = n ->
  exists k, List.length l = (n + k)%nat.
Proof. exact reader_ok_counts. Qed.

(* chunk invariance: for EVERY chunk size, a file whose start codes sit exactly at its entry
   boundaries is read back as the parse of every entry, in order - no entry lost, duplicated or
   split at a chunk boundary - provided the first read reaches the second start code or covers the
   whole file (always true of a 100 000 byte chunk and RPU-sized entries) *)
Theorem C14_chunk_invariance : forall parse cs es rpus,
  well_delimited es -> Forall (fun e => (4 <= List.length e)%nat) es -> (4 <= cs)%nat -> es <> [] ->
  (List.length (hd [] es) + 4 <= cs \/ total es < cs)%nat ->
  map_ok parse es = Some rpus ->
  parse_rpu_file parse cs (concat es) = Ok rpus.
Proof. exact reader_chunk_invariance. Qed.

(* what write_rpu_file writes is such a concatenation of entries *)
Theorem C14_written_file_is_entries : forall nals,
  write_rpu_file nals = concat (map (fun nal => SC ++ skipn 2 nal) nals).
Proof. exact write_rpu_file_entries. Qed.

(* the side condition is decidable for a concrete file, and satisfiable *)
Theorem C14_well_delimited_decidable : forall es,
  Forall (fun e => (4 <= List.length e)%nat) es -> wd_check es = true -> well_delimited es.
Proof. exact wd_check_sound. Qed.

Theorem C14_example_read_back : forall (x : rpu) (cs : nat),
  (12 <= cs)%nat -> parse_rpu_file (fun _ => Ok x) cs (concat ex_entries) = Ok [x; x; x].
Proof. exact ex_entries_read_back. Qed.

Print Assumptions C14_ok_means_all_parsed.
Print Assumptions C14_chunk_invariance.
Print Assumptions C14_example_read_back.
