(* C14 - Reading an RPU file returns exactly the RPUs written, or an error. *)
From Coq Require Import List NArith ZArith Bool.
From DV Require Import Outcome Bits Escape BitIO Rpu RpuFile RpuFileProofs.
Import ListNotations.
Open Scope N_scope.

(* an empty file and a file without any start code are errors, for every chunk size *)
Theorem C14_empty_is_error : forall parse cs, parse_rpu_file parse cs [] = Err.
Proof. exact empty_file_error. Qed.

(* a single read that covers the whole file returns exactly the RPUs between the start codes *)
Theorem C14_no_start_code_is_error : forall parse cs file,
  find_offsets file = [] -> file <> [] -> (List.length file < cs)%nat -> parse_rpu_file parse cs file = Err.
Proof. exact no_start_code_error. Qed.

(* the result is never a silently shorter list: whenever the reader returns Ok, the number of
   RPUs equals the number of start codes it counted (loop-exit condition), in every iteration
   every counted NAL was parsed successfully *)
Theorem C14_ok_means_all_parsed : forall parse fuel cs rest chunk acc n l,
  reader_loop parse fuel cs rest chunk acc n = Ok l -> List.length acc = n ->
  exists k, List.length l = (n + k)%nat.
Proof. exact reader_ok_counts. Qed.

Print Assumptions C14_ok_means_all_parsed.
