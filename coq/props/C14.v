(* C14 - Reading an RPU file returns exactly the RPUs written, or an error. *)
From Coq Require Import List NArith ZArith Bool.
From DV Require Import Outcome Bits Escape BitIO Rpu RpuFile RpuFileProofs RpuFileDelim.
Import ListNotations.
Open Scope N_scope.

(* an empty file and a file without any start code are errors, for every chunk size *)
Theorem C14_empty_is_error : forall parse cs, parse_rpu_file parse cs [] = Err.
Proof. exact empty_file_error. Qed.

(* a single read that covers the whole file returns exactly the RPUs between the start codes *)
Theorem C14_no_start_code_is_error : forall parse cs file,
  find_offsets file = [] -> file <> [] -> (List.length file < cs)%nat -> parse_rpu_file parse cs file = Err.
Proof. exact no_start_code_error. Qed.

(* the result is never a silently shorter list: whenever the reader returns Ok, the number of
   RPUs equals the number of start codes it counted (loop-exit condition), in every iteration
   every counted NAL was parsed successfully *)
Theorem C14_ok_means_all_parsed : forall parse fuel cs rest chunk acc n l,
  reader_loop parse fuel cs rest chunk acc n = Ok l -> List.length acc = n ->
  exists k, List.length l = (n + k)%nat.
Proof. exact reader_ok_counts. Qed.

(* chunk invariance: for EVERY chunk size, a file whose start codes sit exactly at its entry
   boundaries is read back as the parse of every entry, in order - no entry lost, duplicated or
   split at a chunk boundary - provided the first read reaches the second start code or covers the
   whole file (always true of a 100 000 byte chunk and RPU-sized entries) *)
Theorem C14_chunk_invariance : forall parse cs es rpus,
  well_delimited es -> Forall (fun e => (4 <= List.length e)%nat) es -> (4 <= cs)%nat -> es <> [] ->
  (List.length (hd [] es) + 4 <= cs \/ total es < cs)%nat ->
  map_ok parse es = Some rpus ->
  parse_rpu_file parse cs (concat es) = Ok rpus.
Proof. exact reader_chunk_invariance. Qed.

(* what write_rpu_file writes is such a concatenation of entries *)
Theorem C14_written_file_is_entries : forall nals,
  write_rpu_file nals = concat (map (fun nal => SC ++ skipn 2 nal) nals).
Proof. exact write_rpu_file_entries. Qed.

(* the side condition is decidable for a concrete file, and satisfiable *)
Theorem C14_well_delimited_decidable : forall es,
  Forall (fun e => (4 <= List.length e)%nat) es -> wd_check es = true -> well_delimited es.
Proof. exact wd_check_sound. Qed.

Theorem C14_example_read_back : forall (x : rpu) (cs : nat),
  (12 <= cs)%nat -> parse_rpu_file (fun _ => Ok x) cs (concat ex_entries) = Ok [x; x; x].
Proof. exact ex_entries_read_back. Qed.

(* the side condition holds of every file the tool writes: escaping (C13) leaves no byte-aligned
   00 00 {00,01,02} inside a NAL, so 00 00 00 01 occurs only at the entry boundaries *)
Theorem C14_written_file_well_delimited : forall payloads,
  Forall (fun p => hd 1 p <> 0) payloads ->
  well_delimited (map (fun nal => SC ++ skipn 2 nal) (map nal_of payloads)).
Proof. exact written_file_well_delimited. Qed.

(* WRITE THEN READ, for every payload list and chunk size: the file written from the escaped NALs
   of any payloads (first byte non-zero: the 0x19 prefix) is read back as the parse of every
   entry, in order *)
Theorem C14_write_then_read : forall parse cs payloads rpus,
  payloads <> [] -> Forall (fun p => hd 1 p <> 0) payloads -> (4 <= cs)%nat ->
  let es := map (fun nal => SC ++ skipn 2 nal) (map nal_of payloads) in
  (List.length (hd [] es) + 4 <= cs \/ total es < cs)%nat ->
  map_ok parse es = Some rpus ->
  parse_rpu_file parse cs (write_rpu_file (map nal_of payloads)) = Ok rpus.
Proof. exact write_then_read. Qed.

Print Assumptions C14_ok_means_all_parsed.
Print Assumptions C14_write_then_read.
Print Assumptions C14_chunk_invariance.
Print Assumptions C14_example_read_back.
