(* C12 - Extension-block edits keep each DM container consistent. *)
From Coq Require Import List NArith ZArith Bool String Sorting.Permutation Sorting.Sorted.
From DV Require Import Outcome Bits BitIO Fields Blocks Rpu Ops Tables OpsProofs.
From DVgen Require Import Blocks_gen.
Import ListNotations.
Open Scope N_scope.

(* level -> container routing tables: disjoint, complete, parse dispatch = allowed lists *)
Theorem C12_routing_tables : routing_ok = true.
Proof. exact routing_tables_ok. Qed.

(* after every mutating container operation the stored count is the number of blocks *)
Theorem C12_count : forall c, cnum (update_info c) = N.of_nat (List.length (cblocks (update_info c))).
Proof. exact update_info_count. Qed.

(* ... and the container is sorted by (level, target), as a permutation of what it held *)
Theorem C12_sorted : forall c, Sorted block_le (cblocks (update_info c)).
Proof. exact update_info_sorted. Qed.
Theorem C12_sort_permutation : forall c, Permutation (cblocks (update_info c)) (cblocks c).
Proof. exact update_info_perm. Qed.

(* add / remove / keyed replace / replace-level never store a block in the wrong container:
   routing is an invariant of every operation, for any history *)
Theorem C12_routing_invariant : forall ops d d',
  dm_routed d = true -> run_dm_ops d ops = Ok d' -> dm_routed d' = true.
Proof. exact run_dm_ops_routed. Qed.

(* a block whose container is absent is never stored anywhere *)
Theorem C12_absent_container : forall d b,
  container_of_level d (blevel b) = None ->
  dm_add_block d b = Ok d /\ (keyed_level (blevel b) = true -> dm_replace_block d b = Err).
Proof. exact absent_container_noop. Qed.

(* keyed upsert: replacing (level, target) leaves every block with another key untouched and in
   order, and leaves exactly max 1 (count before) blocks with that key *)
Theorem C12_upsert_others : forall c nb,
  Permutation (filter (fun b => negb (same_key nb b)) (cblocks (c_upsert c nb)))
              (filter (fun b => negb (same_key nb b)) (cblocks c)).
Proof. exact upsert_others. Qed.
Theorem C12_upsert_count : forall c nb,
  List.length (filter (same_key nb) (cblocks (c_upsert c nb))) =
  Nat.max 1 (List.length (filter (same_key nb) (cblocks c))).
Proof. exact upsert_count. Qed.

Print Assumptions C12_routing_invariant.
Print Assumptions C12_upsert_count.
Print Assumptions C12_sorted.
