(* C12 - Extension-block edits keep each DM container consistent. *)
From Coq Require Import List NArith ZArith Bool String Sorting.Permutation Sorting.Sorted.
From DV Require Import Outcome Bits BitIO Fields Blocks Rpu Ops Tables OpsProofs GeneratorPrec.
From DVgen Require Import Blocks_gen.
Import ListNotations.
Open Scope N_scope.

(* level -> container routing tables: disjoint, complete, parse dispatch = allowed lists *)
Theorem C12_routing_tables : routing_ok = true.
Proof. exact routing_tables_ok. Qed.

(* after every mutating container operation the stored count is the number of blocks *)
Theorem C12_count : forall c, cnum (update_info c) = N.of_nat (List.length (cblocks (update_info c))).
Proof. exact update_info_count. Qed.

(* ... and the container is sorted by (level, target), as a permutation of what it held *)
Theorem C12_sorted : forall c, Sorted block_le (cblocks (update_info c)).
Proof. exact update_info_sorted. Qed.
Theorem C12_sort_permutation : forall c, Permutation (cblocks (update_info c)) (cblocks c).
Proof. exact update_info_perm. Qed.

(* add / remove / keyed replace / replace-level never store a block in the wrong container:
   routing is an invariant of every operation, for any history *)
Theorem C12_routing_invariant : forall ops d d',
  dm_routed d = true -> run_dm_ops d ops = Ok d' -> dm_routed d' = true.
Proof. exact run_dm_ops_routed. Qed.

(* a block whose container is absent is never stored anywhere *)
Theorem C12_absent_container : forall d b,
  container_of_level d (blevel b) = None ->
  dm_add_block d b = Ok d /\ (keyed_level (blevel b) = true -> dm_replace_block d b = Err).
Proof. exact absent_container_noop. Qed.

(* keyed upsert: replacing (level, target) leaves every block with another key untouched and in
   order, and leaves exactly max 1 (count before) blocks with that key *)
Theorem C12_upsert_others : forall c nb,
  Permutation (filter (fun b => negb (same_key nb b)) (cblocks (c_upsert c nb)))
              (filter (fun b => negb (same_key nb b)) (cblocks c)).
Proof. exact upsert_others. Qed.
Theorem C12_upsert_count : forall c nb,
  List.length (filter (same_key nb) (cblocks (c_upsert c nb))) =
  Nat.max 1 (List.length (filter (same_key nb) (cblocks c))).
Proof. exact upsert_count. Qed.

(* REPLACEMENT IS AN UPSERT, at the level of the whole DM data and for every level: after replace_metadata_block,
   the blocks found under the key (level, target) of the new block are the new block followed by what was there
   beyond the first (nothing, when keys were unique: no second block for a key that already has one), none at all
   when the container of its level is absent; the blocks under every other key - in either container - are the
   same; containers neither appear nor disappear *)
Theorem C12_replace_block_keys : forall d b d', dm_replace_block d b = Ok d' ->
  forall k, Permutation (key_blocks d' k)
    (if key_eqb (okey b) k
     then (if has_cont d (blevel b) then b :: (if keyed_level (blevel b) then tl (key_blocks d k) else []) else [])
     else key_blocks d k)
  /\ has_cont d' (fst k) = has_cont d (fst k).
Proof. exact replace_block_keys. Qed.

(* and unique keys stay unique, over any history of replacements: the last writer of a key is what is found *)
Theorem C12_replace_history : forall bs d d', uniq_keys d -> dm_replace_blocks d bs = Ok d' ->
  uniq_keys d' /\
  forall k, key_blocks d' k = match last_writer k bs with
                              | Some b => if has_cont d (fst k) then [b] else []
                              | None => key_blocks d k
                              end
            /\ has_cont d' (fst k) = has_cont d (fst k).
Proof. exact replace_blocks_last_writer. Qed.

Print Assumptions C12_routing_invariant.
Print Assumptions C12_replace_block_keys.
Print Assumptions C12_replace_history.
Print Assumptions C12_upsert_count.
Print Assumptions C12_sorted.
