(* C15 - AV1 ITU-T T.35 wrapping round-trips every RPU of every size. *)
From Coq Require Import List NArith Lia.
From DV Require Import Outcome Bits BitIO Av1 Av1Proofs Av1RT.
From DVgen Require Import Consts_gen.
Import ListNotations.
Open Scope N_scope.

(* the 8-bit variable_bits size field: every size below 2^8 + 2^16 = 65792 is written
   (one or two groups) and read back exactly, in both build profiles, whatever follows *)
Theorem C15_varbits : forall v w rest, v < 65792 ->
  exists w' bs, write_variable_bits v 8 w = Ok w' /\ wbits w' = wbits w ++ bs /\
    forall prof pos, parse_variable_bits prof 8 (mkR (bs ++ rest) pos)
                     = Ok (v, mkR rest (pos + N.of_nat (length bs))).
Proof.
  intros v w rest Hv.
  assert (H1 : 1 <= 8) by lia. assert (H2 : 8 <= 32) by lia.
  assert (H3 : 2 ^ 8 + 2 ^ 8 * 2 ^ 8 < two32) by (vm_compute; reflexivity).
  destruct (write_variable_bits_total 8 H1 H2 H3 eq_refl v w ltac:(exact Hv)) as [w' Hw].
  destruct (variable_bits_roundtrip 8 H1 H2 H3 eq_refl v w w' rest ltac:(exact Hv) Hw) as [bs [Hb Hp]].
  exists w', bs. auto.
Qed.

(* same for the 5-bit field that carries emdf_payload_id_ext *)
Theorem C15_varbits5 : forall v w rest, v < 1056 ->
  exists w' bs, write_variable_bits v 5 w = Ok w' /\ wbits w' = wbits w ++ bs /\
    forall prof pos, parse_variable_bits prof 5 (mkR (bs ++ rest) pos)
                     = Ok (v, mkR rest (pos + N.of_nat (length bs))).
Proof.
  intros v w rest Hv.
  assert (H1 : 1 <= 5) by lia. assert (H2 : 5 <= 32) by lia.
  assert (H3 : 2 ^ 5 + 2 ^ 5 * 2 ^ 5 < two32) by (vm_compute; reflexivity).
  destruct (write_variable_bits_total 5 H1 H2 H3 eq_refl v w ltac:(exact Hv)) as [w' Hw].
  destruct (variable_bits_roundtrip 5 H1 H2 H3 eq_refl v w w' rest ltac:(exact Hv) Hw) as [bs [Hb Hp]].
  exists w', bs. auto.
Qed.

(* header constants: what the writer emits is what the parser insists on, and the widths the
   hand-written model hard-codes are the widths in the source (regenerated on every run) *)
Theorem C15_header_consts :
  t35_provider_code = t35_provider_code_parse /\
  t35_provider_oriented_code = t35_provider_oriented_code_parse /\
  emdf_version = emdf_version_parse /\ emdf_key_id = emdf_key_id_parse /\
  emdf_payload_id = emdf_payload_id_parse /\ emdf_payload_id_ext = emdf_payload_id_ext_parse /\
  emdf_header_write_widths = [2; 3; 5; 5; 4] /\ emdf_header_parse_widths = [2; 3; 5; 5; 8] /\
  emdf_flags_write = 0 /\ emdf_discard_write = true /\
  emdf_flags_parse = [false; false; false; false; true] /\
  emdf_trailer = [(0, 5); (1, 2); (0, 2); (0, 8)] /\
  t35_provider_code_bits = 16 /\ t35_provider_oriented_code_bits = 32 /\
  firstn 2 t35_payload_header = [0; t35_provider_code] /\ av1_min_len = 34.
Proof. vm_compute. repeat split; try reflexivity. Qed.

(* the fixed T.35 header bytes are what the writer produces for the first 9 bytes (size >= 256 form) *)
Example C15_example_header :
  exists rest, convert_regular_rpu_to_av1_payload (25 :: repeat 7 300 ++ [128]) = Ok (t35_payload_header ++ rest).
Proof. vm_compute. eexists. reflexivity. Qed.

(* the boundary that used to fail: a 256-byte payload *)
Example C15_example_256 :
  is_ok (convert_regular_rpu_to_av1_payload (25 :: repeat 7 255 ++ [128])) = true.
Proof. vm_compute. reflexivity. Qed.

(* THE CONTAINER ROUND TRIP: every RPU (0x19 ... 0x80, any trailing zero bytes, up to 65791 payload
   bytes) wrapped into the ITU-T T.35 / EMDF container and unwrapped again comes back byte for byte
   (without its trailing zeros), whatever the payload bytes are - fixed header fields, the
   variable_bits size in one or two groups, the payload without emulation prevention, the
   trailer and the alignment with 1 bits *)
Theorem C15_av1_roundtrip : forall data out,
  convert_regular_rpu_to_av1_payload data = Ok out -> forallb is_byte data = true ->
  N.of_nat (List.length (strip_trailing_zeros data)) <= 65792 ->
  forall prof, convert_av1_rpu_payload_to_regular prof out = Ok (strip_trailing_zeros data).
Proof. exact av1_roundtrip. Qed.

Print Assumptions C15_varbits.
Print Assumptions C15_av1_roundtrip.
Print Assumptions C15_varbits5.
Print Assumptions C15_header_consts.
