(* C07 - RPU k belongs to displayed frame k, for both extract-rpu and inject-rpu. *)
From Coq Require Import List NArith ZArith Bool Sorting.Permutation.
From DV Require Import Outcome Bits BitIO Rpu Stream Order OrderProofs.
Import ListNotations.
Open Scope N_scope.

(* reordering a period keeps exactly its frames and numbers them consecutively from the base *)
Theorem C07_period_numbering : forall off l,
  map f_pres (renumber off (sort_frames l)) = map (fun k => off + N.of_nat k) (seq 0 (List.length l)) /\
  Permutation (map f_dec (renumber off (sort_frames l))) (map f_dec l).
Proof. exact period_numbering. Qed.

(* inside a period frames are numbered in POC order (stable for equal POCs) *)
Theorem C07_period_sorted : forall l, poc_sorted (sort_frames l).
Proof. exact sort_frames_sorted. Qed.

(* extraction: sorting the (presentation number, RPU) pairs by presentation number puts the RPU
   of the frame displayed k-th at position k whenever the keys are a permutation of 0..n-1 *)
Theorem C07_extract_positions : forall (A : Type) (kv : list (N * A)),
  Permutation (map fst kv) (map N.of_nat (seq 0 (List.length kv))) ->
  map fst (sort_kv kv) = map N.of_nat (seq 0 (List.length kv)).
Proof. exact sort_kv_positions. Qed.

(* EXTRACTION: RPUs are collected in decode order and written sorted by the presentation number
   of their frames: whenever those numbers are a permutation of 0..n-1 (C07_period_numbering),
   the RPU of the frame with decoded index d comes out at position pres(d) - the k-th RPU of the
   file is the RPU of the frame displayed k-th - and none is lost *)
Theorem C07_extract_order_correct : forall (A : Type) (fs : list frame) (rpus out : list A),
  extract_order fs rpus = Ok out ->
  Permutation (map (fun i => pres_of fs (N.of_nat i)) (seq 0 (List.length rpus))) (map N.of_nat (seq 0 (List.length rpus))) ->
  List.length out = List.length rpus /\
  forall d r, nth_error rpus d = Some r -> nth_error out (N.to_nat (pres_of fs (N.of_nat d))) = Some r.
Proof. exact @extract_order_correct. Qed.

(* INJECTION: a flushed frame gets the RPU at its presentation position of the input list, placed
   after every NAL of the frame except a trailing run of EOS / EOB NALs (and after the AUD written
   for the frame); the frame's other NALs keep their bytes and order; what was written before is
   untouched *)
Theorem C07_flush_frame_correct : forall p io fs rpus s s' f,
  flush_frame p io fs rpus false s = Ok s' ->
  frame_of_dec fs (fb_number s) = Some f ->
  exists x d pre post,
    nth_error rpus (N.to_nat (f_pres f)) = Some x /\ write_hevc_unspec62_nalu p src_sw x = Ok d /\
    (if io_no_add_aud io then fb_nals s else (35, aud_for f) :: fb_nals s) = pre ++ post /\
    pre <> [] /\
    Forall (fun n => is_eos (fst n) = true) post /\
    (exists y t, pre = t ++ [y] /\ is_eos (fst y) = false) /\
    map snd (skipn (List.length (written s)) (written s')) = map snd (pre ++ (62, d) :: post) /\
    firstn (List.length (written s)) (written s') = written s.
Proof. exact flush_frame_correct. Qed.

Print Assumptions C07_period_numbering.
Print Assumptions C07_extract_order_correct.
Print Assumptions C07_flush_frame_correct.
Print Assumptions C07_extract_positions.
