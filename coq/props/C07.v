(* C07 - RPU k belongs to displayed frame k, for both extract-rpu and inject-rpu. *)
From Coq Require Import List NArith ZArith Bool Sorting.Permutation.
From DV Require Import Outcome Bits BitIO Rpu Stream Order OrderProofs.
Import ListNotations.
Open Scope N_scope.

(* reordering a period keeps exactly its frames and numbers them consecutively from the base *)
Theorem C07_period_numbering : forall off l,
  map f_pres (renumber off (sort_frames l)) = map (fun k => off + N.of_nat k) (seq 0 (List.length l)) /\
  Permutation (map f_dec (renumber off (sort_frames l))) (map f_dec l).
Proof. exact period_numbering. Qed.

(* inside a period frames are numbered in POC order (stable for equal POCs) *)
Theorem C07_period_sorted : forall l, poc_sorted (sort_frames l).
Proof. exact sort_frames_sorted. Qed.

(* extraction: sorting the (presentation number, RPU) pairs by presentation number puts the RPU
   of the frame displayed k-th at position k whenever the keys are a permutation of 0..n-1 *)
Theorem C07_extract_positions : forall (A : Type) (kv : list (N * A)),
  Permutation (map fst kv) (map N.of_nat (seq 0 (List.length kv))) ->
  map fst (sort_kv kv) = map N.of_nat (seq 0 (List.length kv)).
Proof. exact sort_kv_positions. Qed.

Print Assumptions C07_period_numbering.
Print Assumptions C07_extract_positions.
