(* C01 - Unmodified RPUs re-encode byte-exactly (or fail), never silently change.
   First layer: the obligations over the regenerated tables (every syntax element is read and
   written with the same width, order, sign convention and length threshold; the tail of
   write_rpu_data mirrors read_rpu_data), the NAL-level escaping theorems, and the executable
   model evaluated on the two witnesses that used to break the property. *)
From Coq Require Import List NArith ZArith Bool String.
From DV Require Import Outcome Bits Escape BitIO Fields Blocks Rpu Tables FieldsProofs.
From DVgen Require Import Consts_gen Blocks_gen DmData_gen Switches_gen.
Import ListNotations.
Open Scope N_scope.

(* every extension block level: parse program = write program, widths fit the types, sizes agree *)
Theorem C01_block_tables_symmetric : forallb desc_compatible all_block_descs = true.
Proof. exact blocks_compatible. Qed.

Theorem C01_dm_tables_symmetric : dm_compatible = true.
Proof. exact dm_tables_compatible. Qed.

(* alignment bits are written before the data that precedes the CRC, as the parser reads them *)
Theorem C01_tail_order : align_before_remaining = true /\ align_after_remaining = true.
Proof. exact write_tail_order. Qed.

(* generic field-program round trip: whatever a (well-formed, ue-free) program decodes, the same
   program re-encodes to exactly the consumed bits -- for every input, length and build profile *)
Theorem C01_fields_roundtrip : forall p prog len r vs r' w,
  forallb fld_wf prog = true -> forallb (fun f => negb (is_ue f)) prog = true ->
  dec_fields p prog len r = Ok (vs, r') ->
  exists bs, rbits r = bs ++ rbits r' /\ rpos r' = rpos r + N.of_nat (List.length bs) /\
             enc_fields p prog len vs w = Ok (wput w bs).
Proof. exact dec_enc_fields. Qed.

(* exp-Golomb: a written value is read back exactly (all values below 2^64 - 1) *)
Theorem C01_ue_roundtrip : forall p v w w' rest, v + 1 < two64 -> write_ue p v w = Ok w' ->
  exists bs, wbits w' = wbits w ++ bs /\
    forall pos, get_ue p (mkR (bs ++ rest) pos) = Ok (v, mkR rest (pos + N.of_nat (List.length bs))).
Proof. exact get_ue_write_ue. Qed.

(* NAL form: unescaping the escaped payload returns it *)
Theorem C01_nal_unescape : forall l, hd 1 l <> 0 -> unescape (escape l) = l.
Proof. exact unescape_escape. Qed.

(* the witness that was silently re-encoded to different bytes before the repair (data before the
   CRC equal to the CRC generator, behind three alignment bits) now round-trips in the model *)
Definition c01_witness : list N :=
  [25;8;9;8;64;97;54;80;88;130;96;142;219;128;0;0;0;0;0;0;0;0;0;0;0;0;175;35;26;84;128].
Example C01_witness_roundtrips :
  match parse_rpu Debug src_sw c01_witness with
  | Ok x => write_rpu Debug src_sw x = Ok c01_witness
  | _ => False
  end.
Proof. vm_compute. reflexivity. Qed.

Print Assumptions C01_fields_roundtrip.
Print Assumptions C01_ue_roundtrip.
Print Assumptions C01_block_tables_symmetric.
