(* C01 - Unmodified RPUs re-encode byte-exactly (or fail), never silently change.
   First layer: the obligations over the regenerated tables (every syntax element is read and
   written with the same width, order, sign convention and length threshold; the tail of
   write_rpu_data mirrors read_rpu_data), the NAL-level escaping theorems, and the executable
   model evaluated on the two witnesses that used to break the property. *)
From Coq Require Import List NArith ZArith Bool String.
From DV Require Import Outcome Bits Escape BitIO Fields Blocks Rpu Tables FieldsProofs HeaderRT MappingRT RpuRT RpuRTExample.
From DVgen Require Import Consts_gen Blocks_gen DmData_gen Switches_gen.
Import ListNotations.
Open Scope N_scope.

(* every extension block level: parse program = write program, widths fit the types, sizes agree *)
Theorem C01_block_tables_symmetric : forallb desc_compatible all_block_descs = true.
Proof. exact blocks_compatible. Qed.

Theorem C01_dm_tables_symmetric : dm_compatible = true.
Proof. exact dm_tables_compatible. Qed.

(* alignment bits are written before the data that precedes the CRC, as the parser reads them *)
Theorem C01_tail_order : align_before_remaining = true /\ align_after_remaining = true.
Proof. exact write_tail_order. Qed.

(* generic field-program round trip: whatever a (well-formed, ue-free) program decodes, the same
   program re-encodes to exactly the consumed bits -- for every input, length and build profile *)
Theorem C01_fields_roundtrip : forall p prog len r vs r' w,
  forallb fld_wf prog = true -> forallb (fun f => negb (is_ue f)) prog = true ->
  dec_fields p prog len r = Ok (vs, r') ->
  exists bs, rbits r = bs ++ rbits r' /\ rpos r' = rpos r + N.of_nat (List.length bs) /\
             enc_fields p prog len vs w = Ok (wput w bs).
Proof. exact dec_enc_fields. Qed.

(* exp-Golomb: a written value is read back exactly (all values below 2^64 - 1) *)
Theorem C01_ue_roundtrip : forall p v w w' rest, v + 1 < two64 -> write_ue p v w = Ok w' ->
  exists bs, wbits w' = wbits w ++ bs /\
    forall pos, get_ue p (mkR (bs ++ rest) pos) = Ok (v, mkR rest (pos + N.of_nat (List.length bs))).
Proof. exact get_ue_write_ue. Qed.

(* NAL form: unescaping the escaped payload returns it *)
Theorem C01_nal_unescape : forall l, hd 1 l <> 0 -> unescape (escape l) = l.
Proof. exact unescape_escape. Qed.

(* the witness that was silently re-encoded to different bytes before the repair (data before the
   CRC equal to the CRC generator, behind three alignment bits) now round-trips in the model *)
Definition c01_witness : list N :=
  [25;8;9;8;64;97;54;80;88;130;96;142;219;128;0;0;0;0;0;0;0;0;0;0;0;0;175;35;26;84;128].
Example C01_witness_roundtrips :
  match parse_rpu Debug src_sw c01_witness with
  | Ok x => write_rpu Debug src_sw x = Ok c01_witness
  | _ => False
  end.
Proof. vm_compute. reflexivity. Qed.

(* ------------------------------------------------------------------------------------------
   THE RPU ROUND TRIP.  For EVERY byte string that the parser accepts (header, mapping with any
   number of pivots and polynomial / MMR pieces, NLQ, DM payload with both containers and every
   extension block level, alignment, data before the CRC, CRC, terminator, trailing zero bytes):
   if the unmodified write returns at all, it returns exactly the input bytes.  Proved by
   composing a read-then-write lemma for every syntax element (the writer's own validation
   failures need no hypothesis: they are the "or fails with an error" half of the property).
   Side conditions, each a reason the statement would be false without it:
     - mapping_small: signed coefficients below 2^52 in magnitude - the third-party signed
       exp-Golomb reader goes through f64 and rounds larger codes;
     - mapping_consistent: no curve mixing polynomial and MMR pieces (the writer rejects those
       since the repair; the hypothesis keeps the theorem independent of that switch);
     - the parse is that of a Debug build, which panics on the one non-canonical exp-Golomb code
       (129 bits; third-party known finding) that a Release build reads as a shorter value.
   ------------------------------------------------------------------------------------------ *)
Theorem C01_rpu_roundtrip : forall sw data x,
  parse_inner Debug sw data = Ok x -> forallb is_byte data = true -> rpu_side_conditions x ->
  forall p out, write_rpu_data p sw x = Ok out -> out = data.
Proof. exact rpu_roundtrip. Qed.

(* non-vacuity: the repository's profile 7 FEL sample (polynomial and MMR curves, NLQ, DM blocks)
   is accepted, meets the side conditions (decidable form, sound) and is written back *)
Theorem C01_side_conditions_decidable : forall x, side_conditionsb x = true -> rpu_side_conditions x.
Proof. exact side_conditionsb_sound. Qed.

Example C01_sample_meets_hypotheses :
  forallb is_byte fel_sample = true /\
  match parse_inner Debug src_sw fel_sample with
  | Ok x => side_conditionsb x = true /\ write_rpu_data Debug src_sw x = Ok fel_sample
  | _ => False
  end.
Proof. exact fel_sample_roundtrips. Qed.

(* the same at the entry points: raw RPU (any accepted start-code / NAL-header prefix) and HEVC
   UNSPEC62 NAL: the payload comes back in prefix-less, emulation-prevention-free form, and in
   escaped form (behind the 7C 01 header) when the input was canonically escaped *)
Theorem C01_parse_rpu_roundtrip : forall sw data x,
  parse_rpu Debug sw data = Ok x -> forallb is_byte data = true -> rpu_side_conditions x ->
  exists d, validated_trimmed_data data = Ok d /\
    forall p out, write_rpu p sw x = Ok out -> out = d.
Proof. exact parse_rpu_roundtrip. Qed.

Theorem C01_parse_nalu_roundtrip : forall sw data x,
  parse_unspec62_nalu Debug sw data = Ok x -> forallb is_byte data = true -> rpu_side_conditions x ->
  exists d, validated_trimmed_data data = Ok d /\
    (forall p out, write_rpu p sw x = Ok out -> out = unescape d) /\
    (canonically_escaped d = true ->
     forall p out, write_hevc_unspec62_nalu p sw x = Ok out -> out = 124 :: 1 :: d).
Proof. exact parse_nalu_roundtrip. Qed.

(* the parts, each in the stronger form "the writer returns, and appends exactly the bits read" *)
Theorem C01_header_roundtrip : forall r h r',
  parse_header Debug r = Ok (h, r') ->
  exists bs, consumed r r' bs /\ forall p w, write_header p h w = Ok (wput w bs).
Proof. exact header_roundtrip. Qed.

Theorem C01_mapping_roundtrip : forall sw h r m r',
  parse_mapping Debug sw h r = Ok (m, r') ->
  el_bit_depth_minus8 h < 256 -> mapping_consistent m -> mapping_small m ->
  exists bs, consumed r r' bs /\ forall p w, write_mapping p sw h m w = Ok (wput w bs).
Proof. exact mapping_roundtrip. Qed.

Theorem C01_dm_roundtrip : forall h r d r',
  parse_dm Debug h r = Ok (d, r') ->
  exists bs, consumed r r' bs /\ forall p, wspec r bs (write_dm p d).
Proof. exact dm_rt. Qed.

(* exp-Golomb read then written (unsigned: every canonical code; signed: |v| < 2^52) *)
Theorem C01_ue_read_write : forall r v r', get_ue Debug r = Ok (v, r') ->
  exists bs, consumed r r' bs /\ forall p w, write_ue p v w = Ok (wput w bs).
Proof. exact get_ue_rt. Qed.

Theorem C01_se_read_write : forall r v r', get_se Debug r = Ok (v, r') ->
  (Z.abs v < Z.of_N two52)%Z ->
  exists bs, consumed r r' bs /\ forall p w, write_se p v w = Ok (wput w bs).
Proof. exact get_se_rt. Qed.

(* the witness found while proving the header round trip (el_bit_depth_minus8 coded with bits
   above bit 15 and a colliding CRC): silently re-encoded before the repair, a parse error now *)
Definition c01_el_witness : list N :=
  [25;8;9;8;64;97;48;0;0;0;0;0;15;244;166;168;176;0;25;65;96;148;63;83;127;128].
Example C01_el_witness_rejected : parse_rpu Debug src_sw c01_el_witness = Err.
Proof. vm_compute. reflexivity. Qed.

Print Assumptions C01_fields_roundtrip.
Print Assumptions C01_rpu_roundtrip.
Print Assumptions C01_parse_nalu_roundtrip.
Print Assumptions C01_ue_roundtrip.
Print Assumptions C01_block_tables_symmetric.
