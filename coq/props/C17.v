(* C17 - same inputs, same outputs: every command is deterministic. *)
From Coq Require Import List NArith ZArith Bool String Sorting.Permutation.
From DV Require Import Outcome Bits BitIO Blocks Rpu Ops Editor EditorProofs Determinism.
From DVgen Require Import Iter_gen.
Import ListNotations.
Open Scope N_scope.

(* the editor's result depends only on the content of its maps, not on the order in which the
   entries are listed or stored: two listings of the same configuration give the same outcome *)
Theorem C17_editor_order_independent : forall p c1 c2 rpus,
  same_but_maps c1 c2 -> same_map (e_cuts c1) (e_cuts c2) -> same_map (e_edits c1) (e_edits c2) ->
  edit p c1 rpus = edit p c2 rpus.
Proof. exact edit_order_independent. Qed.

(* blocks with distinct (level, target) keys end in the same order whatever the order they were
   produced in (XML target displays are iterated out of a HashMap, then inserted into a container
   that is re-sorted by key) *)
Theorem C17_sorted_insertion_order_independent : forall l1 l2,
  NoDup (map sort_key l1) -> Permutation l1 l2 -> sort_blocks l1 = sort_blocks l2.
Proof. exact sort_blocks_canonical. Qed.

(* every iteration over a hashed container in the sources is one of the sites accounted for above *)
Theorem C17_hash_iteration_sites_accounted : forallb site_accounted hash_iter_sites = true.
Proof. exact hash_iteration_sites_accounted. Qed.

Print Assumptions C17_editor_order_independent.
Print Assumptions C17_sorted_insertion_order_independent.
Print Assumptions C17_hash_iteration_sites_accounted.
