(* C02 - Reported RPU values are exactly the values encoded in the bitstream. *)
From Coq Require Import List NArith ZArith Lia Bool String.
From DV Require Import Outcome Bits BitIO Fields Blocks Rpu Tables Grammar C02Proofs RpuWS C02Whole.
From DVgen Require Import Blocks_gen DmData_gen.
Import ListNotations.
Open Scope N_scope.

(* the parse program of every extension block level and of the DM payload is the reference
   syntax table: same fields, order, widths, signedness, length thresholds, block sizes *)
Theorem C02_parser_matches_grammar : parser_matches_grammar = true.
Proof. exact parser_refines_grammar_tables. Qed.

(* value semantics of a decoded field: unsigned fields are the big-endian value of their bits,
   signed fields the two's complement value *)
Theorem C02_unsigned_value : forall p f len bits rest pos,
  present f len = true -> f_k f = FU -> f_w f <= f_tb f -> List.length bits = N.to_nat (f_w f) ->
  dec_field p f len (mkR (bits ++ rest) pos) = Ok (Z.of_N (val bits), mkR rest (pos + f_w f)).
Proof. exact dec_field_unsigned. Qed.

Theorem C02_signed_value : forall p f len bits rest pos,
  present f len = true -> f_k f = FS -> 1 <= f_w f -> f_w f <= f_tb f -> List.length bits = N.to_nat (f_w f) ->
  dec_field p f len (mkR (bits ++ rest) pos) = Ok (twos (f_w f) (val bits), mkR rest (pos + f_w f)) /\
  (- 2 ^ (Z.of_N (f_w f) - 1) <= twos (f_w f) (val bits) < 2 ^ (Z.of_N (f_w f) - 1))%Z /\
  ((twos (f_w f) (val bits)) mod 2 ^ Z.of_N (f_w f) = Z.of_N (val bits))%Z.
Proof. exact dec_field_signed. Qed.

(* fields beyond the block's length are not read and report their default *)
Theorem C02_absent_default : forall p f len r,
  present f len = false -> dec_field p f len r = Ok (f_def f, r).
Proof. intros p f len r H. unfold dec_field. rewrite H. reflexivity. Qed.

(* profile classification (docs/profiles.md): the decision table of get_dovi_profile *)
Theorem C02_profile_rules : forall h,
  get_dovi_profile h = classify_profile (vdr_rpu_profile h) (bl_video_full_range_flag h)
                         (el_spatial_resampling_filter_flag h) (disable_residual_flag h)
                         (vdr_bit_depth_minus8 h).
Proof. exact profile_rules. Qed.

(* el_bit_depth_minus8 / ext_mapping_idc split of the exp-Golomb value, and its inverse *)
Theorem C02_el_bit_depth_split : forall v, v < 65536 ->
  let el := N.land v 255 in let ext := N.land (N.shiftr v 8) 255 in
  N.lor (N.shiftl (N.lor (N.land (N.shiftl (N.shiftr ext 5) 5) 255) (N.land ext 31)) 8) el = v.
Proof. exact el_split_inverse. Qed.

(* THE WHOLE RPU: the parser inverts the syntax. With the writer of the model as the definition of the RPU syntax
   (compared on every run of C03 with an independent reference encoder written from the specification tables), every
   canonical value tree x - any profile, any number of pivots, polynomial / MMR pieces, NLQ, DM data, any extension
   blocks of any admissible length - once encoded is reported by the parser as exactly x, field for field
   (reparsed x crc = x with the CRC read from the stream and the modified flag cleared) *)
Theorem C02_parser_inverts_syntax : forall p sw x out,
  write_rpu_data p sw x = Ok out -> rpu_canonical sw x ->
  exists crc, parse_inner Debug sw out = Ok (reparsed x crc).
Proof. exact parser_inverts_syntax. Qed.

Print Assumptions C02_parser_matches_grammar.
Print Assumptions C02_parser_inverts_syntax.
Print Assumptions C02_signed_value.
Print Assumptions C02_profile_rules.
